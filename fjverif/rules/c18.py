"""C18 - a device failure or interrupt stops the run at a consistent point (structural clauses)."""
from __future__ import annotations

import ast
import re
from typing import Any, Dict, List, Optional, Set, Tuple

from .. import linexpr as lx
from ..ccfg import build_c_cfg, loop_heads
from ..cfacts import CUnit, call_args, callee, int_value, is_assign, strip, walk
from ..core import AnalysisError, Report
from ..linexpr import Env, c_ir
from ..pycfg import Graph, Node, must_dataflow
from ..pyfacts import Repo, dotted, handler_types, norm, walk_no_nested
from ..spec import machine as M
from ..steps import CLoop, RUN_REL

EXC_REL = 'flipjump/utils/exceptions.py'


def exception_hierarchy(repo: Repo) -> Dict[str, List[str]]:
    out: Dict[str, List[str]] = {}
    for st in repo.mod(EXC_REL).body:
        if isinstance(st, ast.ClassDef):
            out[st.name] = [dotted(b).split('.')[-1] for b in st.bases]
    return out


def is_subclass(h: Dict[str, List[str]], a: str, b: str) -> bool:
    if a == b:
        return True
    builtin = {'KeyboardInterrupt': ['BaseException'], 'Exception': ['BaseException'], 'IOError': ['Exception'],
               'OSError': ['Exception'], 'ValueError': ['Exception'], 'KeyError': ['Exception']}
    for base in h.get(a, builtin.get(a, [])):
        if is_subclass(h, base, b):
            return True
    return False


def rule_classify(rep: Report, repo: Repo) -> None:
    rep.rule('C18.CLASSIFY', 'the except clauses of fjm_run.run classify in this order: memory exception -> memory-error '
             'termination with its address; library exception -> re-raised unchanged; KeyboardInterrupt -> '
             'keyboard-interrupt termination; any other Exception -> wrapped as the runtime error with the cause chained', 6)
    fn = repo.func(RUN_REL, 'run')
    site = f'{RUN_REL}:{fn.lineno} run'
    h = exception_hierarchy(repo)
    tries = [n for n in walk_no_nested(fn) if isinstance(n, ast.Try) and any(
        isinstance(c, ast.Call) and dotted(c.func) in ('_run_fast', '_run_native', '_run_featured') for c in ast.walk(n))]
    if len(tries) != 1:
        raise AnalysisError('run(): the try around the engine dispatch was not found')
    t = tries[0]
    seq = [handler_types(x)[0] for x in t.handlers]
    # what matters is which clause an exception of each kind REACHES: the first clause whose class is the exception's class or a base of
    # it (python's rule) - disjoint clauses may stand in any order
    want_reach = {'FlipJumpRuntimeMemoryException': 'FlipJumpRuntimeMemoryException', 'FlipJumpException': 'FlipJumpException',
                  'IODeviceException': 'FlipJumpException', 'KeyboardInterrupt': 'KeyboardInterrupt', 'ValueError': 'Exception', 'KeyError': 'Exception'}
    reach = {k: next((c_ for c_ in seq if is_subclass(h, k, c_)), None) for k in want_reach}
    rep.check(reach == want_reach and sorted(seq) == sorted(['FlipJumpRuntimeMemoryException', 'FlipJumpException', 'KeyboardInterrupt', 'Exception']),
              'C18.CLASSIFY', 'run:handler-order', f'{seq}: ' + str({k: v for k, v in reach.items() if want_reach[k] != v} or 'every kind reaches its clause'), site)
    # hierarchy facts the order relies on
    rep.check(is_subclass(h, 'FlipJumpRuntimeMemoryException', 'FlipJumpException')
              and is_subclass(h, 'IODeviceException', 'FlipJumpException')
              and is_subclass(h, 'IOReadOnEOF', 'IODeviceException')
              and not is_subclass(h, 'KeyboardInterrupt', 'Exception'), 'C18.CLASSIFY', 'exceptions:hierarchy',
              'memory exception and IO device exceptions are library exceptions; KeyboardInterrupt is not an Exception',
              EXC_REL)
    for hd in t.handlers:
        ty = handler_types(hd)[0]
        body = hd.body
        if ty == 'FlipJumpRuntimeMemoryException':
            r = body[0] if isinstance(body[0], ast.Return) else None
            ok = r is not None and any(dotted(x) == 'TerminationCause.RuntimeMemoryError' for x in ast.walk(r)) and \
                any(k.arg == 'memory_error_address' and norm(k.value) == f'{hd.name}.memory_address'
                    for c in ast.walk(r) if isinstance(c, ast.Call) for k in c.keywords)
            rep.check(ok, 'C18.CLASSIFY', 'run:memory-exception', norm(body[0])[:90], site,
                      expected='return RuntimeMemoryError termination with the exception address')
        elif ty == 'FlipJumpException':
            ok = len(body) == 1 and isinstance(body[0], ast.Raise) and (
                body[0].exc is None or (isinstance(body[0].exc, ast.Name) and body[0].exc.id == hd.name)) \
                and body[0].cause is None
            rep.check(ok, 'C18.CLASSIFY', 'run:library-exception', norm(body[0])[:90], site, expected='re-raise unchanged')
        elif ty == 'KeyboardInterrupt':
            ok = isinstance(body[0], ast.Return) and any(dotted(x) == 'TerminationCause.KeyboardInterrupt' for x in ast.walk(body[0]))
            rep.check(ok, 'C18.CLASSIFY', 'run:keyboard-interrupt', norm(body[0])[:90], site)
        elif ty == 'Exception':
            ok = len(body) == 1 and isinstance(body[0], ast.Raise) and isinstance(body[0].exc, ast.Call) \
                and dotted(body[0].exc.func) == 'FlipJumpRuntimeException' and isinstance(body[0].cause, ast.Name) \
                and body[0].cause.id == hd.name
            rep.check(ok, 'C18.CLASSIFY', 'run:foreign-exception', norm(body[0])[:90], site,
                      expected='raise FlipJumpRuntimeException(...) from the original')
    # no handler in the run loops swallows device exceptions
    for fname in ('_run_fast', '_run_featured', '_run_native'):
        f = repo.func(RUN_REL, fname)
        # a handler that always re-raises the same exception (last statement a bare `raise`, no return / other raise before it)
        # swallows nothing: it may record statistics on the way out
        def reraises(h: ast.ExceptHandler) -> bool:
            return bool(h.body) and isinstance(h.body[-1], ast.Raise) and h.body[-1].exc is None and not any(
                isinstance(x, (ast.Return, ast.Break, ast.Continue)) or (isinstance(x, ast.Raise) and x is not h.body[-1])
                for st in h.body for x in ast.walk(st))
        bad = [handler_types(x) for n in walk_no_nested(f) if isinstance(n, ast.Try) for x in n.handlers
               if not set(handler_types(x)) <= {'KeyError', 'IOReadOnEOF'} and not reraises(x)]
        rep.check(not bad, 'C18.CLASSIFY', f'{fname}:no-broad-handler', f'swallowing handlers beyond KeyError/IOReadOnEOF: {bad}',
                  f'{RUN_REL}:{f.lineno} {fname}')


def rule_finally(rep: Report, repo: Repo, cu: CUnit) -> None:
    rep.rule('C18.FINALLY', 'the op count stays valid on every exit path: _run_fast loops inside try/finally assigning '
             'statistics.op_counter from its counter; _run_native wraps core.run in try/finally restoring op_counter, '
             'paused time and storage mode from the engine; the C loops publish ops and paused seconds on every path '
             'to their exit', 7)
    fn = repo.func(RUN_REL, '_run_fast')
    loop = [n for n in walk_no_nested(fn) if isinstance(n, ast.While)]
    ok = False
    if loop:
        p = getattr(loop[0], '_parent', None)
        ok = isinstance(p, ast.Try) and loop[0] in p.body and any(
            isinstance(s, ast.Assign) and norm(s.targets[0]) == 'statistics.op_counter' and norm(s.value) == 'ops'
            for s in p.finalbody)
    rep.check(ok, 'C18.FINALLY', '_run_fast:finally', 'loop inside try/finally: statistics.op_counter = ops',
              f'{RUN_REL}:{fn.lineno} _run_fast')
    # every explicit return in the fast loop also publishes first (cheap redundancy the code keeps) - not required
    fn = repo.func(RUN_REL, '_run_native')
    tr = [n for n in walk_no_nested(fn) if isinstance(n, ast.Try) and any(
        isinstance(c, ast.Call) and dotted(c.func) == 'core.run' for s in n.body for c in ast.walk(s))]
    restored = {}
    if tr:
        for s in tr[0].finalbody:
            if isinstance(s, ast.Assign):
                restored[norm(s.targets[0])] = norm(s.value)
            elif isinstance(s, ast.AugAssign):
                restored[norm(s.target)] = '+= ' + norm(s.value)
    want = {'statistics.op_counter': 'core.last_run_op_count',
            'statistics.pause_timer.paused_time': '+= core.last_run_paused_seconds',
            'statistics.storage_mode': 'core.storage_mode'}
    for k, v in want.items():
        rep.check(restored.get(k) == v, 'C18.FINALLY', f'_run_native:finally:{k}', f'{k} <- {restored.get(k)}',
                  f'{RUN_REL}:{fn.lineno} _run_native', expected=v)
    # C loops: published on every path to the exit
    for fname in M.ROLES_C:
        for consts in ([{'with_ring': 0}, {'with_ring': 1}] if fname == 'run_paged_loop_impl' else [{}]):
            g = build_c_cfg(cu, fname, consts)

            def gen_kill(node: Node, lab: Optional[str]) -> Tuple[Set[str], Any]:
                a = node.ast
                gen: Set[str] = set()
                kill: Set[str] = set()
                if not isinstance(a, dict) or node.kind not in ('stmt', 'cond', 'return'):
                    return gen, kill
                for n in walk(a):
                    if is_assign(n):
                        l, r = cu.src_of(n['inner'][0]), cu.src_of(n['inner'][1])
                        if l == 'self->last_run_op_count' and r == 'ops':
                            gen.add('ops')
                        if l == 'self->last_run_paused_seconds' and r == '*paused_seconds_out':
                            gen.add('paused')
                        if l == '*ops_out' and r == 'ops':
                            gen.add('ops_out')
                    if n.get('kind') == 'UnaryOperator' and n.get('opcode') == '++' and cu.src_of(n['inner'][0]) == 'ops':
                        kill.add('ops'); kill.add('ops_out')
                    if n.get('kind') == 'CompoundAssignOperator' and cu.src_of(n['inner'][0]) == '*paused_seconds_out':
                        kill.add('paused')
                return gen - kill if False else gen, kill
            IN = must_dataflow(g, g.entry, gen_kill)
            rets = [n for n in g.nodes if n.kind == 'return']
            if not rets:
                raise AnalysisError(f'{fname}: no return')
            for r in rets:
                facts = IN.get(r.id) or frozenset()
                rep.check({'ops', 'paused', 'ops_out'} <= facts, 'C18.FINALLY',
                          f'{fname}{consts or ""}:return', f'published at return: {sorted(facts)}', cu.site(r.ast, fname),
                          expected='last_run_op_count, last_run_paused_seconds and *ops_out assigned after the last change')


_CALLBACK_CALLS = ('PyObject_CallFunctionObjArgs', 'PyObject_CallNoArgs', 'PyObject_CallOneArg', 'PyObject_CallObject', 'PyObject_Call')


def _failure_vars(cu: CUnit, fname: str) -> Tuple[Set[str], Set[str]]:
    """(locals holding the result of a Python callback: NULL means failure, locals holding a PyObject_IsTrue status: < 0 means failure)"""
    _cache = cu.__dict__.setdefault('_c18_fail_vars', {})              # per translation unit, never across variants
    key = fname
    if key not in _cache:
        objs: Set[str] = set()
        stats: Set[str] = set()
        for n in walk(cu.body(fname)):
            tgt, val = None, None
            if is_assign(n):
                tgt, val = cu.src_of(n['inner'][0]), n['inner'][1]
            elif n.get('kind') == 'VarDecl' and n.get('inner'):
                tgt, val = n['name'], n['inner'][-1]
            if tgt is None or val is None:
                continue
            cs = [callee(c) for c in walk(val) if c.get('kind') == 'CallExpr']
            if any(c in _CALLBACK_CALLS for c in cs):
                objs.add(tgt)
            elif 'PyObject_IsTrue' in cs:
                stats.add(tgt)
        _cache[key] = (objs, stats)
    return _cache[key]


def _failure_side(cu: CUnit, fname: str, test: str) -> Optional[str]:
    """which branch of this loop test is the failure branch of a device callback / signal check ('T' / 'F'), None: not such a test.
    Spellings of `v is NULL`, `status < 0` and `PyErr_CheckSignals() failed` in either polarity are recognised."""
    objs, stats = _failure_vars(cu, fname)
    t = test.replace(' ', '')
    def wrapped(x: str) -> bool:
        if not (x.startswith('(') and x.endswith(')')):
            return False
        depth = 0
        for k, ch in enumerate(x):
            depth += ch == '('
            depth -= ch == ')'
            if depth == 0 and k < len(x) - 1:
                return False
        return True
    while wrapped(t):
        t = t[1:-1]
    for v in objs:
        if t in (f'!{v}', f'{v}==NULL', f'NULL=={v}', f'{v}==0', f'!({v})'):
            return 'T'
        if t in (v, f'{v}!=NULL', f'NULL!={v}', f'{v}!=0'):
            return 'F'
    for core in list(stats) + ['PyErr_CheckSignals()']:
        if t in (f'{core}<0', f'0>{core}', f'{core}==-1', f'{core}<=-1', f'-1=={core}'):
            return 'T'
        if t in (f'{core}>=0', f'0<={core}', f'{core}!=-1', f'{core}>-1'):
            return 'F'
    if t in ('PyErr_CheckSignals()!=0', 'PyErr_CheckSignals()', '0!=PyErr_CheckSignals()'):
        return 'T'
    if t in ('PyErr_CheckSignals()==0', '!PyErr_CheckSignals()', '0==PyErr_CheckSignals()'):
        return 'F'
    return None


def rule_cfail(rep: Report, cu: CUnit, repo: Optional[Repo] = None) -> None:
    repo = repo or Repo()
    rep.rule('C18.CFAIL', 'a failed device callback (NULL result, IsTrue < 0) leaves the loop without executing any later '
             'event of that op; only the EOF type is cleared and turned into a cause; Memory_run returns NULL on the '
             'python-error marker (ring freed)', 14)
    for fname in M.ROLES_C:
        for consts in ([{'with_ring': 0}, {'with_ring': 1}] if fname == 'run_paged_loop_impl' else [{}]):
            L = CLoop(cu, fname, M.ROLES_C[fname], consts)
            g = L.g
            n_sites = 0
            for node in g.nodes:
                if node.kind != 'cond' or not isinstance(node.ast, dict):
                    continue
                txt = cu.src_of(node.ast)
                side = _failure_side(cu, fname, txt)
                if side is None:
                    continue
                n_sites += 1
                start = [m for m, lab in g.succ[node.id] if lab == side][0]
                seen = {start}
                work = [start]
                later: List[str] = []
                while work:
                    n = work.pop()
                    ev = [e for e in L.events(g.nodes[n])]
                    if ev:
                        later.append(f'{ev} at {cu.site(g.nodes[n].ast)}')
                    for m, _ in g.succ[n]:
                        if m not in seen:
                            seen.add(m)
                            work.append(m)
                rep.check(not later, 'C18.CFAIL', f'{L.clone_name()}:{txt}@{_label(g, node.id)}',
                          'leaves the loop with no later event' if not later else f'later events reachable: {later[:3]}',
                          cu.site(node.ast, fname), expected='no FLIP/COUNT/... after the failure')
            if n_sites < 4:
                raise AnalysisError(f'{fname}: expected 4 failure tests (output, input NULL, IsTrue, signals), found {n_sites}')
        # PyErr_Clear only under the EOF match
        g = build_c_cfg(cu, fname, {'with_ring': 1} if fname == 'run_paged_loop_impl' else {})
        from ..steps import c_assigned, c_mentions, path_conditions
        IN = path_conditions(g, g.entry, c_assigned, c_mentions)
        clears = 0
        for node in g.nodes:
            if isinstance(node.ast, dict) and node.kind == 'stmt' and any(callee(c) == 'PyErr_Clear' for c in walk(node.ast) if c.get('kind') == 'CallExpr'):
                clears += 1
                conds = {cu.src_of(g.nodes[nid].ast) + ':' + pol for nid, pol in (IN.get(node.id) or frozenset())}
                rep.check('PyErr_ExceptionMatches(eof_exception_type):T' in conds, 'C18.CFAIL', f'{fname}:PyErr_Clear',
                          f'cleared under {sorted(conds)}', cu.site(node.ast, fname), expected='only when the EOF type matches')
        if clears != 1:
            raise AnalysisError(f'{fname}: expected one PyErr_Clear, found {clears}')
    # end-of-input is a property of READING: only a failed read_bit may be turned into the EOF cause
    for fname in M.ROLES_C:
        for consts in ([{'with_ring': 0}, {'with_ring': 1}] if fname == 'run_paged_loop_impl' else [{}]):
            L = CLoop(cu, fname, M.ROLES_C[fname], consts)
            g = L.g
            for node in g.nodes:
                if 'OUTPUT' not in L.events(node):
                    continue
                # the failure test that follows the write_bit call
                nxt = [m for m, _ in g.succ[node.id]]
                hops = 0
                while nxt and g.nodes[nxt[0]].kind == 'stmt' and not L.events(g.nodes[nxt[0]]) and len(g.succ[nxt[0]]) == 1 and hops < 3:
                    nxt = [m for m, _ in g.succ[nxt[0]]]
                    hops += 1
                side = _failure_side(cu, fname, cu.src_of(g.nodes[nxt[0]].ast)) if nxt and g.nodes[nxt[0]].kind == 'cond' else None
                if side is None:
                    raise AnalysisError(f'{fname}: the write_bit call is not followed by a NULL test of its result')
                start = [m for m, lab in g.succ[nxt[0]] if lab == side][0]
                seen = {start}
                work = [start]
                hit = None
                while work:
                    n = work.pop()
                    a = g.nodes[n].ast
                    if isinstance(a, dict) and g.nodes[n].kind in ('stmt', 'cond'):
                        t = cu.src_of(a)
                        if 'PyErr_Clear' in t or 'TERM_EOF' in t:
                            hit = f'{cu.site(a)}: {t[:50]}'
                    for m2, _ in g.succ[n]:
                        if m2 not in seen:
                            seen.add(m2)
                            work.append(m2)
                rep.check(hit is None, 'C18.CFAIL', f'{L.clone_name()}:write_bit-failure-is-never-EOF',
                          'a failed write_bit leaves with the exception still set' if hit is None else
                          f'a failed write_bit can reach {hit}: an IOReadOnEOF raised by write_bit would be swallowed as an EOF termination',
                          cu.site(node.ast, fname), expected='only a failed read_bit is matched against the EOF type')
    for fname in ('_run_fast', '_run_featured'):
        f = repo.func(RUN_REL, fname)
        for n in walk_no_nested(f):
            if isinstance(n, ast.Try) and any('IOReadOnEOF' in handler_types(h) for h in n.handlers):
                inside = {dotted(c.func) for s2 in n.body for c in ast.walk(s2) if isinstance(c, ast.Call)}
                ok = not ({'io_write_bit', '_handle_output', 'io_device.write_bit'} & inside) and ({'io_read_bit', '_handle_input'} & inside)
                rep.check(bool(ok), 'C18.CFAIL', f'{fname}:EOF-handler-scope', f'the IOReadOnEOF handler encloses {sorted(inside)}',
                          f'{RUN_REL}:{n.lineno} {fname}', expected='only the input read')
    # Memory_run: python error -> NULL, ring freed
    g = build_c_cfg(cu, 'Memory_run')
    n_checks = 0
    for node in g.nodes:
        txt0 = cu.src_of(node.ast) if isinstance(node.ast, dict) else ''
        if node.kind == 'cond' and (txt0.endswith('== CAUSE_PYTHON_ERROR') or txt0.endswith('!= CAUSE_PYTHON_ERROR')):
            n_checks += 1
            # the python-error arm: the true branch of `==`, the false branch of `!=`
            t = [m for m, lab in g.succ[node.id] if lab == ('T' if txt0.endswith('== CAUSE_PYTHON_ERROR') else 'F')][0]
            # every path of the branch ends in `return NULL`; with a ring it frees the ring; an exception that is fetched
            # (to build the kept last-ops list) is restored before the return
            paths: List[List[str]] = []
            def dfs(cur: int, acc: List[str], depth: int = 0) -> None:
                nd = g.nodes[cur]
                if depth > 60:
                    raise AnalysisError('Memory_run: python-error branch too long')
                if nd.kind == 'return':
                    paths.append(acc + [cu.src_of(nd.ast)])
                    return
                txt = cu.src_of(nd.ast) if isinstance(nd.ast, dict) else nd.kind
                for m2, _lab in g.succ[cur]:
                    dfs(m2, acc + [txt], depth + 1)
            dfs(t, [])
            ring = 'loop_cause' in cu.src_of(node.ast)
            ok = bool(paths)
            for pth in paths:
                calls_ = ' ; '.join(pth)
                ok = ok and pth[-1] == 'return NULL' and (not ring or any(x == 'free(last_ops_ring)' for x in pth))
                if 'PyErr_Fetch(' in calls_:
                    fi = max(i for i, x in enumerate(pth) if 'PyErr_Fetch(' in x)
                    ok = ok and any('PyErr_Restore(' in x for x in pth[fi + 1:])
                ok = ok and not any('PyErr_Clear()' in x for x in pth if 'PyErr_Fetch(' not in calls_)
            seq = paths[0][:6] if paths else []
            is_ret_null = all(pth[-1] == 'return NULL' for pth in paths)
            rep.check(ok, 'C18.CFAIL', f'Memory_run:{cu.src_of(node.ast)}', f'{len(paths)} path(s), e.g. {seq} ...; all return NULL={is_ret_null}',
                      cu.site(node.ast, 'Memory_run'), expected='return NULL on every path, ring freed, a fetched exception restored')
    if n_checks != 3:
        raise AnalysisError(f'Memory_run: expected 3 python-error checks, found {n_checks}')


def _label(g: Graph, nid: int) -> str:
    from .c07 import _nearest_label
    return _nearest_label(g, nid)


def rule_signal(rep: Report, cu: CUnit) -> None:
    rep.rule('C18.SIGNAL', 'every C run loop polls PyErr_CheckSignals at least once per SIGNAL_CHECK_MASK+1 executed ops '
             '(strip-mined inner loop whose only back edge decrements the budget, or the (ops & MASK)==MASK test), '
             'publishes the op count before polling, and leaves through the error exit on a negative result', 9)
    MASK = cu.macro_int('SIGNAL_CHECK_MASK')
    rep.check(MASK == (1 << 18) - 1, 'C18.SIGNAL', 'SIGNAL_CHECK_MASK', hex(MASK), cu.rel, expected='2^18 - 1 (documented cadence)')
    for fname in ('run_flat_loop_impl', 'run_paged_loop_impl'):
        consts0 = {'with_ring': 1} if fname == 'run_paged_loop_impl' else {}
        L0 = CLoop(cu, fname, M.ROLES_C[fname], consts0)
        g = L0.g
        head = L0.head()              # the per-op loop head, whatever statement kind spells the loop
        # the budget variable: the local that is assigned SIGNAL_CHECK_MASK + 1
        budget = sorted({cu.src_of(n['inner'][0]) for n in walk(cu.body(fname)) if is_assign(n) and cu.src_of(n['inner'][1]) == 'SIGNAL_CHECK_MASK + 1'})
        if len(budget) != 1:
            raise AnalysisError(f'{fname}: the strip-mining budget variable was not found ({budget})')
        bv = budget[0]
        def pred_kind(pid: int) -> str:
            a = g.nodes[pid].ast
            t = cu.src_of(a).replace(' ', '') if isinstance(a, dict) else g.nodes[pid].kind
            if t == f'{bv}=SIGNAL_CHECK_MASK+1':
                return 'budget refreshed'
            if t in (f'--{bv}', f'{bv}--', f'{bv}-=1', f'--{bv}==0', f'--{bv}!=0', f'{bv}=={bv}' ) or t.startswith(f'--{bv}') or t.startswith(f'{bv}--'):
                return 'budget decremented'
            return f'OTHER: {t[:40]}'
        back_srcs = {pred_kind(p) for p, _ in g.pred[head]}
        rep.check(back_srcs == {'budget decremented', 'budget refreshed'}, 'C18.SIGNAL', f'{fname}:back-edge',
                  f'the per-op loop head is entered from {sorted(back_srcs)}', cu.site(cu.func(fname)),
                  expected='only from the budget decrement or right after a poll refreshed the budget')
        assigns = [cu.src_of(n['inner'][1]) for n in walk(cu.body(fname)) if is_assign(n) and cu.src_of(n['inner'][0]) == bv]
        rep.check(assigns == ['SIGNAL_CHECK_MASK + 1'], 'C18.SIGNAL', f'{fname}:budget', f'inner_left = {assigns}',
                  cu.site(cu.func(fname)), expected='one assignment: SIGNAL_CHECK_MASK + 1')
        # entry to the do-head from outside passes: publish -> CheckSignals -> budget
        seq = _straight_preds(cu, g, head, 4, lambda pid: pred_kind(pid) == 'budget decremented')
        opsv = L0.roles['ops']
        ok = len(seq) >= 3 and seq[0] == f'{bv} = SIGNAL_CHECK_MASK + 1' and seq[1] == 'PyErr_CheckSignals() < 0' \
            and seq[2] == f'self->last_run_op_count = {opsv}'
        rep.check(ok, 'C18.SIGNAL', f'{fname}:poll', f'before each strip: {seq[::-1]}', cu.site(cu.func(fname)),
                  expected='publish ops; poll signals; set the budget')
    # measured loop
    fname = 'run_measured_loop'
    body = cu.body(fname)
    opsv = CLoop(cu, fname, M.ROLES_C[fname]).roles['ops']
    loops_m = [n for n in walk(body) if n.get('kind') in ('ForStmt', 'WhileStmt', 'DoStmt')]
    first = [c for c in loops_m[0]['inner'][-1].get('inner', []) if c.get('kind') == 'IfStmt'] if loops_m else []
    want_poll = lx.canon(('cmp', ['=='], [('bin', '&', ('sym', opsv), ('sym', 'SIGNAL_CHECK_MASK')), ('sym', 'SIGNAL_CHECK_MASK')]), Env({}))
    got_poll = lx.canon(c_ir(first[0]['inner'][0], lambda n: cu.src_of(n)), Env({})) if first else None
    MASKV = cu.macro_int('SIGNAL_CHECK_MASK')
    want_poll2 = lx.canon(('cmp', ['=='], [('bin', '&', ('sym', opsv), ('num', MASKV)), ('num', MASKV)]), Env({}))
    ok = bool(first) and got_poll in (want_poll, want_poll2)
    inner = [cu.src_of(x) for x in first[0]['inner'][1].get('inner', [])] if first else []
    ok = ok and inner[:1] == [f'self->last_run_op_count = {opsv}'] and any('PyErr_CheckSignals() < 0' in x for x in inner)
    rep.check(ok, 'C18.SIGNAL', f'{fname}:poll', f'{inner[:2]} under {got_poll}', cu.site(cu.func(fname)),
              expected='(ops & MASK) == MASK -> publish ops, poll')
    incs = [n for n in walk(body) if (n.get('kind') == 'UnaryOperator' and n.get('opcode') == '++' and cu.src_of(n['inner'][0]) == opsv)
            or (n.get('kind') == 'CompoundAssignOperator' and n.get('opcode') == '+=' and cu.src_of(n['inner'][0]) == opsv and int_value(n['inner'][1]) == 1)]
    rep.check(len(incs) == 1, 'C18.SIGNAL', f'{fname}:one-increment', f'{len(incs)} increments of ops per iteration',
              cu.site(cu.func(fname)))


def _straight_preds(cu: CUnit, g: Graph, head: int, k: int, is_back_edge: Any) -> List[str]:
    """texts of the nodes preceding the loop head on the entry path from outside the loop (nearest first)."""
    out: List[str] = []
    cur = None
    for p, lab in g.pred[head]:
        if is_back_edge(p):
            continue
        cur = p
    while cur is not None and len(out) < k:
        a = g.nodes[cur].ast
        if isinstance(a, dict) and g.nodes[cur].kind in ('stmt', 'cond'):
            out.append(cu.src_of(a))
        preds = [p for p, lab in g.pred[cur] if g.nodes[p].kind in ('stmt', 'cond', 'join')]
        if g.nodes[cur].kind == 'join' and g.nodes[cur].name == 'for-head':
            break
        cur = preds[0] if len(preds) >= 1 else None
    return out


def rule_stats_on_raise(rep: Report, repo: Repo) -> None:
    rep.rule('C18.STATS-ON-RAISE', 'every statistic the Python loops maintain incrementally (op count, last-ops list) is '
             'also restored when the native engine raises: assigned in the finally of _run_native', 2)
    fn = repo.func(RUN_REL, '_run_native')
    tr = [n for n in walk_no_nested(fn) if isinstance(n, ast.Try) and n.finalbody]
    fin = ' ; '.join(norm(s) for s in tr[0].finalbody) if tr else ''
    site = f'{RUN_REL}:{fn.lineno} _run_native'
    rep.check('statistics.op_counter = ' in fin, 'C18.STATS-ON-RAISE', '_run_native:op_counter',
              'restored in finally' if 'statistics.op_counter = ' in fin else 'not restored', site)
    # the last-ops list: restored in the finally, or in a handler that catches every exception and re-raises it
    in_handler = [h for t in tr for h in t.handlers if set(handler_types(h)) & {'BaseException'}
                  and isinstance(h.body[-1], ast.Raise) and h.body[-1].exc is None
                  and any(isinstance(c, ast.Call) and dotted(c.func) == 'last_ops.extend' for st in h.body for c in ast.walk(st))]
    ok = 'last_ops.extend(' in fin or bool(in_handler)
    rep.check(ok, 'C18.STATS-ON-RAISE', '_run_native:last_ops_addresses',
              'restored on the exception path' if ok else 'the last-ops deque is filled only after a normal return of core.run; when the '
              'run raises (device error, KeyboardInterrupt) the native engine reports an empty list while the Python '
              'loops report the executed ops', site, expected='last-ops list valid on the exception path too')


def rule_kept_ring(rep: Report, cu: CUnit, repo: Repo) -> None:
    fn = repo.func(RUN_REL, '_run_native')
    attrs = sorted({norm(c.args[0]).split('.', 1)[1] for c in ast.walk(fn) if isinstance(c, ast.Call) and dotted(c.func) == 'last_ops.extend'
                    and c.args and norm(c.args[0]).startswith('core.')})
    if not attrs:
        rep.uncovered.append('C18.KEPT-RING: _run_native reads no engine attribute for the last-ops list (see C18.STATS-ON-RAISE)')
        return
    rep.rule('C18.KEPT-RING', 'what _run_native reads on the exception path is what the engine executed: in Memory_run the python-error '
             'branch of the ring loop stores the list built from the ring (by the same emitter as the normal result) in the attribute '
             'the Python side reads, the attribute is cleared at the start of every run, and its getter returns it', 3)
    attr = attrs[0]
    body = cu.body('Memory_run')
    from ..cfacts import local_defs as _ld, strip as _strip
    defs_ = _ld(cu, 'Memory_run')

    def through_local(e: Dict[str, Any]) -> str:
        e0 = _strip(e)
        if e0.get('kind') == 'DeclRefExpr':
            ds = [d for d in defs_.get(e0['referencedDecl']['name'], []) if d is not None]
            if len(ds) == 1:
                return cu.src_of(ds[0])             # a local that names the freshly built list reads as the call that built it
        return cu.src_of(e)
    stores = [through_local(n['inner'][1]) for n in walk(body) if is_assign(n) and cu.src_of(n['inner'][0]) == f'self->{attr}'
              and cu.src_of(n['inner'][1]) not in ('NULL', '0')]
    rep.check(len(stores) == 1 and stores[0].startswith('last_ops_ring_to_list(last_ops_ring, last_ops_length, loop_ring_writes'), 'C18.KEPT-RING',
              f'Memory_run:self->{attr}', str(stores), cu.site(cu.func('Memory_run')), expected='the list built from the ring and its write count')
    cleared = [cu.line_of(n) for n in walk(body) if n.get('kind') == 'CallExpr' and False]
    src = cu.src_of(body)
    first_loop = min([src.find(x) for x in ('run_measured_loop(', 'run_flat_loop(', 'run_generic_loop(') if src.find(x) >= 0] or [-1])
    # cleared directly, or through a unit helper whose body clears the member
    raw_unit = cu.text
    helpers_ = [f for f in cu.funcs if f != 'Memory_run' and re.search(r'\b' + re.escape(f) + r'\s*\([^)]*\)\s*\{[^}]*Py_CLEAR\(\s*\w+->' + re.escape(attr) + r'\s*\)', raw_unit)]
    raw_run = raw_unit[raw_unit.find('Memory_run('):]
    src = raw_run[:raw_run.find('\n}\n') if raw_run.find('\n}\n') > 0 else len(raw_run)]          # the text of the function as written (macros unexpanded)
    first_loop = min([src.find(x) for x in ('run_measured_loop(', 'run_flat_loop(', 'run_generic_loop(') if src.find(x) >= 0] or [-1])
    cands = [src.find(f'Py_CLEAR(self->{attr})')] + [src.find(f'{h}(') for h in helpers_]
    clr = min([c_ for c_ in cands if c_ >= 0] or [-1])
    rep.check(0 <= clr < first_loop, 'C18.KEPT-RING', f'Memory_run:{attr} cleared first', f'Py_CLEAR at offset {clr}, first loop call at {first_loop}',
              cu.site(cu.func('Memory_run')), expected='cleared before any loop runs (no stale list from an earlier run)')
    getters = [f for f in cu.funcs if f.startswith('Memory_get_') and f'self->{attr}' in cu.src_of(cu.body(f))]
    table = cu.src_of(cu.vars['Memory_getset']) if 'Memory_getset' in cu.vars else ''
    rep.check(len(getters) == 1 and f'"{attr}", (getter){getters[0]}' in table.replace('\n', ' '), 'C18.KEPT-RING', f'getter:{attr}',
              f'getters {getters}', cu.site(cu.func(getters[0])) if getters else '', expected='one getter registered under the attribute name')


def rule_signal_py(rep: Report, repo: Repo) -> None:
    """the C loops poll for a pending interrupt at the top of an op; a python loop that relies on KeyboardInterrupt being RAISED inside it is
    stopped between any two bytecodes - after the flip of an op and before that op is counted"""
    rep.rule('C18.SIGNAL-PY', 'a python run loop sees an interrupt only between two ops: it polls a flag that a signal handler sets (or an '
             'equivalent test in the loop condition), instead of letting KeyboardInterrupt be raised asynchronously in the middle of an op - '
             'where memory already holds the flip of an op the reported op count and last-ops list do not include', 2)
    mod = repo.mod(RUN_REL)
    installs = any(isinstance(c, ast.Call) and dotted(c.func) in ('signal.signal', 'signal.set_wakeup_fd') for c in ast.walk(mod))
    catches = any(isinstance(h, ast.ExceptHandler) and h.type is not None and 'KeyboardInterrupt' in norm(h.type) for h in ast.walk(mod))
    n = 0
    for q in ('_run_fast', '_run_featured'):
        if not repo.has_func(RUN_REL, q):
            continue
        fn = repo.func(RUN_REL, q)
        loops_ = [w_ for w_ in ast.walk(fn) if isinstance(w_, ast.While)]
        if not loops_:
            continue
        n += 1
        polls = installs and any(isinstance(x, ast.Name) and 'interrupt' in x.id.lower() for w_ in loops_ for x in ast.walk(w_))
        rep.check(polls or not catches, 'C18.SIGNAL-PY', f'{q}:asynchronous interrupt', 'the loop polls an interrupt flag between ops' if polls else
                  'no signal handler is installed and the loop polls nothing: run() turns a KeyboardInterrupt raised anywhere inside an op into the '
                  'termination - a SIGINT that lands after the flip and before the op is counted reports n ops while memory holds the flip of op n+1 '
                  '(and the last-ops list may carry the half-executed op); the native engine polls at the top of an op and is consistent',
                  f'{RUN_REL}:{fn.lineno} {q}', expected='an interrupt is noticed only at an op boundary')
    if n < 2:
        raise AnalysisError(f'C18.SIGNAL-PY: {n} python run loops found (_run_fast and _run_featured expected)')


def check(rep: Report, repo: Optional[Repo] = None) -> None:
    repo = repo or Repo()
    cu = CUnit(repo)
    cu.inline_void_helpers('Memory_run')        # an extracted void helper of the entry point reads like the code it was extracted from
    rep.units = dict(python_functions=['run', '_run_fast', '_run_native', '_run_featured'], c_functions=len(cu.funcs),
                     c_loops=list(M.ROLES_C))
    rule_classify(rep, repo)
    rule_finally(rep, repo, cu)
    rule_cfail(rep, cu, repo)
    rule_signal(rep, cu)
    rule_signal_py(rep, repo)
    rule_stats_on_raise(rep, repo)
    rule_kept_ring(rep, cu, repo)
    rep.not_decided.append('equality of the memory snapshot at every fault point across engines (value-level)')


MANIFEST = dict(
    technique='exception-clause classification, must-fact dataflow and reachability over C/Python CFGs',
    level_text='Static, structural: the except clauses of run() classify in the documented order with the documented '
               'actions; op count/paused time are published on every exit path (finally blocks; must-dataflow to every C '
               'return); a failed callback or signal poll reaches no later step event; the signal poll cadence is '
               'structurally bounded by SIGNAL_CHECK_MASK+1 ops. Not a proof of snapshot equality at fault points.',
    level_note='Trusted: CPython ast, clang front end, fjverif CFGs.',
    design_ref='DESIGN.md section 4 C18',
)
