"""C07 - results and final memory do not depend on engine or storage layout (structural clauses)."""
from __future__ import annotations

import ast
import re
from typing import Any, Dict, List, Optional, Set, Tuple

from .. import linexpr as lx
from ..ccfg import build_c_cfg, loop_heads
from ..cfacts import CUnit, alias_binding, for_iteration_space, dispatcher_of, call_args, callee, int_value, is_assign, local_defs, strip, walk, wrapping_cursors
from ..core import AnalysisError, Report
from ..linexpr import Env, c_ir, to_lin
from ..pycfg import Graph, Node, must_dataflow, path_to
from ..pyfacts import Repo, dotted, norm
from ..spec import machine as M
from ..steps import CLoop, RUN_REL, c_assigned, c_mentions, path_conditions

P = 'C07'
CACHE_FIELDS = ('page_cache_valid_start', 'page_cache_valid_end', 'page_cache_words', 'page_cache_page')


def call_graph(cu: CUnit) -> Dict[str, Set[str]]:
    g: Dict[str, Set[str]] = {}
    for name in cu.funcs:
        g[name] = {callee(c) for c in walk(cu.body(name)) if c.get('kind') == 'CallExpr'}
    return g


def reaches(cg: Dict[str, Set[str]], target: str) -> Set[str]:
    out: Set[str] = set()
    changed = True
    while changed:
        changed = False
        for f, cs in cg.items():
            if f not in out and (target in cs or cs & out):
                out.add(f)
                changed = True
    return out


def _mem_of(n: Dict[str, Any]) -> Optional[Tuple[str, Dict[str, Any]]]:
    """self->FIELD[index]  ->  (FIELD, index node)"""
    if n.get('kind') != 'ArraySubscriptExpr':
        return None
    base = strip(n['inner'][0])
    if base.get('kind') == 'MemberExpr':
        return base['name'], n['inner'][1]
    return None


# ---------------------------------------------------------------- C07.CACHE

def rule_cache(rep: Report, cu: CUnit) -> None:
    rep.rule('C07.CACHE', 'in the paged run loop a fact read through a page-cache slot index (valid range, words '
             'pointer) is used only while the key test for that slot dominates it with no intervening call that can '
             'refill the cache (everything reaching the function that installs a cache entry, and the two Python callbacks)', 6)
    cg = call_graph(cu)
    # the cache installer(s): whatever function stores into the page-cache key array (found by what it does, not by its name)
    installers = sorted(f for f in cu.funcs if f not in ('Memory_init', 'mem_free_allocations') and any(
        is_assign(n) and (_mem_of(strip(n['inner'][0])) or ('', None))[0] == 'page_cache_key_plus1' for n in walk(cu.body(f))))
    if not installers:
        raise AnalysisError('C07.CACHE: no function stores into page_cache_key_plus1 (the cache installer vanished)')
    invalidating = set().union(*[reaches(cg, f) for f in installers]) | {'PyObject_CallFunctionObjArgs', 'PyObject_CallNoArgs'}
    if 'mem_get_page' not in invalidating or 'mem_flip_bit' not in invalidating:
        raise AnalysisError(f'C07.CACHE: call graph does not show mem_get_page/mem_flip_bit reaching the cache installer {installers}')
    fname = 'run_paged_loop_impl'
    seen_uses = 0
    for ring in (0, 1):
        L = CLoop(cu, fname, M.ROLES_C[fname], {'with_ring': ring, '__split_conditions__': 1})       # one test node per && / || operand
        g = L.g
        env = L.env

        def slot_of_page_expr(page_expr: Dict[str, Any]) -> Optional[str]:
            """the slot variable whose definition is (page_expr & 15)"""
            want = lx.canon(('bin', '&', c_ir(page_expr, cu.src_of), ('num', 15)), env)
            for name, d in env.table.items():
                if isinstance(d, tuple) and lx.canon(d, env) == want:
                    return name
            return None

        def gen_kill(node: Node, lab: Optional[str]) -> Tuple[Set[str], Any]:
            a = node.ast
            gen: Set[str] = set()
            if not isinstance(a, dict) or node.kind not in ('stmt', 'cond', 'return'):
                return gen, set()
            kill: Any = set()
            for c in [x for x in walk(a) if x.get('kind') == 'CallExpr']:
                if callee(c) in invalidating:
                    kill = 'ALL'
            if node.kind == 'cond':
                ir = c_ir(a, cu.src_of)
                # key test:  (page + 1) != self->page_cache_key_plus1[slot]   (F edge = equal)
                if ir[0] == 'cmp' and ir[1] in (['!='], ['==']):
                    for side in (a['inner'][0], a['inner'][1]) if a.get('kind') == 'BinaryOperator' else ():
                        m = _mem_of(strip(side))
                        if m and m[0] == 'page_cache_key_plus1':
                            idx = strip(m[1])
                            if idx.get('kind') == 'DeclRefExpr':
                                eq_edge = 'F' if ir[1] == ['!='] else 'T'
                                if lab == eq_edge:
                                    gen.add(idx['referencedDecl']['name'])
                # successful mem_get_page(self, PAGE) refills slot PAGE & 15
                cs = [x for x in walk(a) if x.get('kind') == 'CallExpr' and callee(x) == 'mem_get_page']
                if cs and strip(a).get('kind') == 'UnaryOperator' and strip(a).get('opcode') == '!' and lab == 'F':
                    s = slot_of_page_expr(call_args(cs[0])[1])
                    if s:
                        gen.add(s)
            # reassignment of a slot variable invalidates its fact
            for v in c_assigned(node):
                if kill != 'ALL':
                    kill.add(v)
            return gen, kill

        IN = must_dataflow(g, g.entry, gen_kill)
        for node in g.nodes:
            a = node.ast
            if not isinstance(a, dict) or node.kind not in ('stmt', 'cond', 'return'):
                continue
            for sub in walk(a):
                m = _mem_of(sub)
                if not m or m[0] not in CACHE_FIELDS:
                    continue
                idx = strip(m[1])
                if idx.get('kind') != 'DeclRefExpr':
                    raise AnalysisError(f'{cu.site(sub)}: cache slot index is not a plain variable')
                slot = idx['referencedDecl']['name']
                facts = IN.get(node.id)
                if facts is None:
                    continue
                seen_uses += 1
                ok = slot in facts
                label = _nearest_label(g, node.id)
                construct = f'{fname}:{m[0]}[{slot}]@{label}'
                if ring == 1 and any(i.construct.split('#')[0] == construct for i in rep.instances if i.rule == 'C07.CACHE'):
                    # the ring clone shares the source site; report it once unless the verdict differs
                    prev = [i for i in rep.instances if i.rule == 'C07.CACHE' and i.construct.split('#')[0] == construct]
                    if all(p.ok == ok for p in prev):
                        continue
                if ok:
                    rep.ok('C07.CACHE', construct, f'key test for {slot} dominates, no refilling call in between',
                           cu.site(sub, fname))
                else:
                    path = [f'{cu.site(g.nodes[p].ast, fname)}: {cu.src_of(g.nodes[p].ast)[:70]}' for p in path_to(g, L.head(), node.id)[-8:]
                            if isinstance(g.nodes[p].ast, dict)]
                    rep.fail('C07.CACHE', construct,
                             f'{m[0]}[{slot}] is read after a call that can refill cache slot {slot} '
                             f'(clone with_ring={ring}); facts here: {sorted(facts)}', cu.site(sub, fname),
                             expected=f'key test of slot {slot} dominating the read with no intervening refill', path=path)
    if seen_uses < 6:
        raise AnalysisError(f'C07.CACHE: only {seen_uses} cache-fact uses found')


def _nearest_label(g: Graph, nid: int) -> str:
    """name of the closest preceding label node (stable, textual position independent)."""
    best = 'entry'
    seen = {nid}
    work = [nid]
    depth = 0
    while work and depth < 40:
        nxt = []
        for n in work:
            if g.nodes[n].kind == 'label':
                return g.nodes[n].name
            for p, _ in g.pred[n]:
                if p not in seen:
                    seen.add(p)
                    nxt.append(p)
        work = nxt
        depth += 1
    return best


# ---------------------------------------------------------------- C07.ROUTE

def rule_route(rep: Report, cu: CUnit) -> None:
    rep.rule('C07.ROUTE', 'one routing predicate: run-time accessors use (flat && word < flat_count); API accessors '
             'add flat_seg_contains and are identical in get/set; inline flat lanes compare against flat_count and '
             'fall back to the routing helpers, never to a raw access', 9)
    # the accessors, found by what they do: every function with a raw access to the flat member array `X->flat[idx]` - except the
    # window builder (the function holding the sentinel fill) and bulk loops indexed by their own counter (bounds: C11) - routes
    # by ONE predicate P:  run-time side  P = X->flat && idx < X->flat_count ;  API side (not reachable from a run loop's callees)
    # P = the same && flat_seg_contains(X, idx).  Decided on the function's CFG by a truth table over the dominating conditions:
    # every raw flat access is reached only under P, every page lookup (mem_get_page) only under not-P.
    cg = call_graph(cu)
    runtime_side: Set[str] = set()
    todo = [f for f in M.ROLES_C]
    while todo:
        f = todo.pop()
        for c in cg.get(f, ()):
            if c in cu.funcs and c not in runtime_side:
                runtime_side.add(c)
                todo.append(c)
    builder = _locate_fill(cu)['fn']
    n_rt = n_api = 0
    for fn in cu.funcs:
        if fn in M.ROLES_C or fn in (builder, 'mem_decide_storage'):
            continue
        accesses = []
        for x in walk(cu.body(fn)):
            mo = _mem_of(x)
            if mo and mo[0] == 'flat':
                accesses.append((x, mo[1]))
        if not accesses:
            continue
        g = build_c_cfg(cu, fn)
        IN = path_conditions(g, g.entry, c_assigned, c_mentions)

        def facts_at(nid: int) -> List[Any]:
            out = []
            for cid, pol in (IN.get(nid) or frozenset()):
                f_ = lx.bool_form(c_ir(g.nodes[cid].ast, cu.src_of))
                out.append(f_ if pol == 'T' else ('not', f_))
            return out

        def node_of(x: Dict[str, Any]) -> Optional[int]:
            for nd in g.nodes:
                if isinstance(nd.ast, dict) and nd.kind in ('stmt', 'cond', 'return') and any(y is x for y in walk(nd.ast)):
                    return nd.id
            return None
        api_side = fn not in runtime_side
        problems: List[str] = []
        shown = ''
        judged = 0
        for x, idx in accesses:
            obj = lx.show(c_ir(strip(x['inner'][0])['inner'][0], cu.src_of))
            idx_ir = c_ir(idx, cu.src_of)
            in_loop = False
            cur = cu.parent(x)
            while isinstance(cur, dict):
                if cur.get('kind') in ('ForStmt', 'WhileStmt', 'DoStmt'):
                    in_loop = True
                cur = cu.parent(cur)
            if in_loop:
                continue                      # a bulk loop (set_words): range-checked once before the loop, judged by C11.BOUNDS
            nid = node_of(x)
            if nid is None:
                problems.append(f'access {cu.src_of(x)} not found in the CFG')
                continue
            judged += 1
            goal_parts = [('atom', f'{obj}.flat'), ('atom', f'{lx.show(idx_ir)} < {obj}.flat_count')]
            if api_side:
                goal_parts.append(('atom', f'flat_seg_contains({obj},{lx.show(idx_ir)})'))
            P = ('and', goal_parts)
            shown = ' and '.join(a[1] for a in goal_parts)
            if not lx.bf_implies(facts_at(nid), P):
                problems.append(f'{cu.src_of(x)} at line {cu.line_of(x)} is not dominated by [{shown}]')
            # the page lookups of the same function: only when P is false
            for nd in g.nodes:
                if isinstance(nd.ast, dict) and nd.kind in ('stmt', 'cond', 'return') and any(
                        c.get('kind') == 'CallExpr' and callee(c) == 'mem_get_page' for c in walk(nd.ast)):
                    if not lx.bf_implies(facts_at(nd.id), ('not', P)):
                        problems.append(f'the page lookup at line {cu.line_of(nd.ast)} is reachable while [{shown}] holds')
        if not judged:
            continue
        pages = any(callee(c) == 'mem_get_page' for c in walk(cu.body(fn)) if c.get('kind') == 'CallExpr')
        acheck = api_side or any(callee(c) == 'access_check' for c in walk(cu.body(fn)) if c.get('kind') == 'CallExpr')
        if not pages:
            problems.append('no page fallback (mem_get_page) in this accessor')
        if not acheck:
            problems.append('the page fallback of a run-time accessor does not validate the address (access_check)')
        n_rt += 0 if api_side else 1
        n_api += 1 if api_side else 0
        rep.check(not problems, 'C07.ROUTE', f'{fn}:predicate', f'{"API" if api_side else "run-time"} accessor routes by [{shown}]' if not problems
                  else '; '.join(sorted(set(problems))[:3]), cu.site(cu.func(fn), fn), expected='flat access iff the routing predicate, else page' +
                  ('' if api_side else ' + access_check'))
    if n_rt < 3 or n_api < 1:
        raise AnalysisError(f'C07.ROUTE: expected >= 3 run-time and >= 1 API accessor with raw flat accesses, found {n_rt} / {n_api}')
    # set_word masks every value it stores (the implementation is found through the method table)
    import re as _re
    mt = cu.src_of(cu.vars['Memory_methods']) if 'Memory_methods' in cu.vars else ''
    mm_ = _re.search(r'"set_word"\s*,\s*\(PyCFunction\)\s*(\w+)', mt)
    if not mm_ or mm_.group(1) not in cu.funcs:
        raise AnalysisError('C07.ROUTE: the set_word entry of the method table was not found')
    setter = mm_.group(1)
    def rd_(fname_: str, node_: Dict[str, Any]) -> str:
        ir_ = c_ir(node_, cu.src_of)
        ld_ = local_defs(cu, fname_)
        for _ in range(3):
            if ir_[0] == 'sym' and len(ld_.get(ir_[1], [])) == 1 and ld_[ir_[1]][0] is not None:
                ir_ = c_ir(ld_[ir_[1]][0], cu.src_of)
        return lx.show(ir_)
    masks = [rd_(setter, n['inner'][1]) for n in walk(cu.body(setter)) if is_assign(n)
             and (strip(n['inner'][0]).get('kind') == 'ArraySubscriptExpr' or
                  (strip(n['inner'][0]).get('kind') == 'UnaryOperator' and strip(n['inner'][0]).get('opcode') == '*'))]
    # ... and so does the bulk loader set_words
    mw_ = _re.search(r'"set_words"\s*,\s*\(PyCFunction\)\s*(\w+)', mt)
    if mw_ and mw_.group(1) in cu.funcs:
        masks_w = [rd_(mw_.group(1), n['inner'][1]) for n in walk(cu.body(mw_.group(1))) if is_assign(n)
                   and (strip(n['inner'][0]).get('kind') == 'ArraySubscriptExpr' or
                        (strip(n['inner'][0]).get('kind') == 'UnaryOperator' and strip(n['inner'][0]).get('opcode') == '*'))]
        rep.check(len(masks_w) >= 1 and all(m in ('(value&self.word_mask)', '(self.word_mask&value)') for m in masks_w), 'C07.ROUTE', 'Memory_set_words:mask',
                  f'stores {masks_w}', cu.site(cu.func(mw_.group(1)), mw_.group(1)), expected='every stored value is masked to w bits')
    rep.check(len(masks) >= 1 and all(m in ('(value&self.word_mask)', '(self.word_mask&value)') for m in masks), 'C07.ROUTE', 'Memory_set_word:mask',
              f'stores {masks}', cu.site(cu.func(setter)), expected='value & word_mask at every store')
    # inline lanes: every comparison against flat_count guards a cold label whose block calls a routing helper
    helpers = {'mem_read_word', 'mem_flip_bit', 'mem_get_word_unaligned', 'mem_write_bit'}
    for fname, consts in (('run_flat_loop_impl', {}), ('run_paged_loop_impl', {'with_ring': 1})):
        L = CLoop(cu, fname, M.ROLES_C[fname], consts)
        g = L.g
        n_found = 0
        for node in g.nodes:
            if node.kind != 'cond' or not isinstance(node.ast, dict):
                continue
            if 'flat_count' not in {x['referencedDecl']['name'] for x in walk(node.ast) if x.get('kind') == 'DeclRefExpr'}:
                continue
            ir = c_ir(node.ast, cu.src_of)
            if ir[0] != 'cmp' or ir[1] != ['>=']:
                raise AnalysisError(f'{cu.site(node.ast)}: unrecognised flat-window test {cu.src_of(node.ast)}')
            n_found += 1
            # T edge (outside the window) must reach a helper call before any raw flat access
            tsucc = [m for m, lab in g.succ[node.id] if lab == 'T']
            ok, what = _first_access_is_helper(cu, g, tsucc[0], helpers)
            rep.check(ok, 'C07.ROUTE', f'{fname}:{cu.src_of(node.ast)}@{_nearest_label(g, node.id)}',
                      f'outside the flat window control reaches {what}', cu.site(node.ast, fname),
                      expected='a routing helper call before any raw flat access')
        need = 3 if fname == 'run_flat_loop_impl' else 1
        if n_found < need:
            raise AnalysisError(f'{fname}: expected >= {need} flat-window tests, found {n_found}')


def _first_access_is_helper(cu: CUnit, g: Graph, start: int, helpers: Set[str]) -> Tuple[bool, str]:
    seen = {start}
    work = [start]
    while work:
        n = work.pop(0)
        node = g.nodes[n]
        a = node.ast
        if isinstance(a, dict) and node.kind in ('stmt', 'cond', 'return'):
            for c in walk(a):
                if c.get('kind') == 'CallExpr' and callee(c) in helpers:
                    return True, callee(c)
            for x in walk(a):
                if x.get('kind') == 'ArraySubscriptExpr':
                    b = strip(x['inner'][0])
                    if b.get('kind') == 'DeclRefExpr' and b['referencedDecl']['name'] == 'flat':
                        return False, f'raw access {cu.src_of(x)} at {cu.site(x)}'
        for m, _ in g.succ[n]:
            if m not in seen:
                seen.add(m)
                work.append(m)
    return False, 'no helper call'


# ---------------------------------------------------------------- C07.SENTINEL

def _sentinel_semantics(ir: lx.IR, var: str, SENT: int, MAGIC: int) -> Optional[str]:
    """is this expression the width's garbage test of `var` - w <= 32: bit 63 set; else: equal to the magic - however it is spelled
    (`(v & S) != 0`, `v >> 63`, a ternary or an if chain folded into one expression)? Folded on a grid of widths and values.
    -> None when it is, else the first disagreement."""
    all_syms = lx.syms(ir)
    others = sorted(x for x in all_syms if x != var and not any(y.startswith(x + '.') for y in all_syms))      # `m` of `m.w` is not an operand
    widths = [x for x in others if x.split('.')[-1] in ('w', 'width')]
    if len(widths) != 1 or len(others) != 1:
        return f'unexpected operands {others}'
    for wv in (8, 16, 32, 64):
        for val in (0, 5, 1 << 63, (1 << 63) | 5, MAGIC, MAGIC ^ 1, MAGIC & ~(1 << 63), (1 << 64) - 1):
            try:
                got = bool(lx.eval_ir(ir, {var: val, widths[0]: wv}))
            except lx.Unrecognised as ex:
                return str(ex)
            want = bool(val >> 63 & 1) if wv <= 32 else (val == MAGIC)
            if got != want:
                return f'w={wv} value={val:#x}: {got} (reference {want})'
    return None


def _sentinel_shape(ir: lx.IR, cu: CUnit, var: Optional[str] = None) -> Optional[Tuple[str, int, int, int]]:
    """cond(W <= T, (v & S) != 0, v == MAGIC) -> (v, T, S, MAGIC)"""
    if ir[0] != 'cond':
        return None
    t, a, b = ir[1], ir[2], ir[3]
    if not (t[0] == 'cmp' and t[1] == ['<='] and t[2][1][0] == 'num'):
        return None
    T = t[2][1][1]
    if a[0] == 'cmp' and a[1] == ['!='] and a[2][0][0] == 'bin' and a[2][0][1] == '&' and a[2][1] == ('num', 0):
        v = lx.show(a[2][0][2])
        S = lx.to_lin(a[2][0][3], Env({})).get('', None)
    else:
        return None
    if b[0] == 'cmp' and b[1] == ['=='] and lx.show(b[2][0]) == v and b[2][1][0] == 'num':
        return v, T, S, b[2][1][1]
    return None


def rule_sentinel(rep: Report, cu: CUnit) -> None:
    rep.rule('C07.SENTINEL', 'every inline read of flat[...] feeding f / the flipped word / j is followed, before any '
             'other use, by the width-selected sentinel test; the fill in mem_decide_storage, flat_is_garbage and '
             'the inline tests agree (w<=32: bit 63; else the magic); the w=64 collision path asks the segment list', 10)
    SENT = cu.macro_int('GARBAGE_SENTINEL')
    MAGIC = cu.macro_int('FLAT_GARBAGE_MAGIC')
    rep.check(SENT == 1 << 63, 'C07.SENTINEL', 'GARBAGE_SENTINEL', hex(SENT), cu.rel, expected='bit 63 (values of w<=32 never set it)')
    # flat_is_garbage
    fig = lx.c_fn_value_ir(cu.body('flat_is_garbage'), cu.src_of)
    vparam = cu.params('flat_is_garbage')[-1]
    why = _sentinel_semantics(fig, vparam, SENT, MAGIC) if fig is not None else 'the body is not a pure expression'
    rep.check(why is None, 'C07.SENTINEL', 'flat_is_garbage', 'bit 63 for w <= 32, the magic otherwise (32 grid cases)' if why is None else why,
              cu.site(cu.func('flat_is_garbage')), expected=f'(w<=32) ? value & bit63 : value == magic')
    # fill in mem_decide_storage
    fill = None
    fl = _locate_fill(cu)
    init = [c for c in fl['decl']['inner'] if isinstance(c, dict) and c.get('kind')][-1]
    ir = c_ir(init, cu.src_of)
    if ir[0] == 'cond' and ir[1][0] == 'cmp' and ir[1][1] == ['<='] and ir[1][2][1] == ('num', 32):
        fill = (lx.to_lin(ir[2], Env({})).get(''), lx.to_lin(ir[3], Env({})).get(''))
    rep.check(fill == (SENT, MAGIC), 'C07.SENTINEL', 'mem_decide_storage:fill', f'fills with {fill}',
              cu.site(cu.func('mem_decide_storage')), expected=f'({SENT}, {MAGIC}) selected by w<=32')
    # collision path
    fgc = [n for n in cu.body('flat_garbage_check').get('inner', []) if n.get('kind') == 'IfStmt']
    got = lx.canon(c_ir(fgc[0]['inner'][0], cu.src_of), Env({})) if fgc else None
    rep.check(got == '((m.w > 32) and flat_seg_contains(m,word_address))', 'C07.SENTINEL', 'flat_garbage_check:collision',
              f'{got}', cu.site(cu.func('flat_garbage_check')), expected='w > 32 and the word lies in a segment -> real data')
    # inline reads in the loops and helpers
    sites = 0
    for fname, consts in (('run_flat_loop_impl', {}), ('run_paged_loop_impl', {'with_ring': 1}),
                          ('mem_read_word', None), ('mem_flip_bit', None), ('mem_write_bit', None)):
        g = build_c_cfg(cu, fname, consts or {})
        for node in g.nodes:
            a = node.ast
            if node.kind != 'stmt' or not isinstance(a, dict):
                continue
            reads = []
            for x in walk(a):
                tgt = None
                if is_assign(x):
                    tgt, val = strip(x['inner'][0]), x['inner'][1]
                elif x.get('kind') == 'VarDecl' and x.get('inner'):
                    val = [c for c in x['inner'] if isinstance(c, dict) and c.get('kind')][-1]
                    tgt = {'kind': 'DeclRefExpr', 'referencedDecl': {'name': x['name']}}
                else:
                    continue
                if tgt.get('kind') != 'DeclRefExpr':
                    continue
                v = strip(val)
                is_flat = False
                if v.get('kind') == 'ArraySubscriptExpr':
                    b = strip(v['inner'][0])
                    is_flat = (b.get('kind') == 'DeclRefExpr' and b['referencedDecl']['name'] == 'flat') or \
                              (b.get('kind') == 'MemberExpr' and b.get('name') == 'flat')
                if v.get('kind') == 'UnaryOperator' and v.get('opcode') == '*':
                    b = strip(v['inner'][0])
                    is_flat = b.get('kind') == 'DeclRefExpr' and b['referencedDecl']['name'] == 'op_flat_jump'
                if is_flat:
                    reads.append(tgt['referencedDecl']['name'])
            for var in reads:
                sites += 1
                ok, what = _next_is_sentinel_test(cu, g, node.id, var, SENT, MAGIC)
                rep.check(ok, 'C07.SENTINEL', f'{fname}:{var} = flat[..]@{_nearest_label(g, node.id)}', what,
                          cu.site(a, fname), expected='sentinel test of the value before any other use')
    if sites < 7:
        raise AnalysisError(f'C07.SENTINEL: only {sites} inline flat reads found')


def _next_is_sentinel_test(cu: CUnit, g: Graph, nid: int, var: str, SENT: int, MAGIC: int) -> Tuple[bool, str]:
    succ = [m for m, _ in g.succ[nid]]
    if len(succ) != 1:
        return False, 'read is not followed by a single successor'
    nxt = g.nodes[succ[0]]
    if nxt.kind != 'cond' or not isinstance(nxt.ast, dict):
        return False, f'next node is not a test ({nxt.kind})'
    ir = c_ir(nxt.ast, cu.src_of)
    sh = _sentinel_shape(ir, cu)
    if sh is not None:
        return (sh == (var, 32, SENT, MAGIC)), f'inline test {sh}'
    if ir[0] in ('cond', 'cmp', 'bin') and var in lx.syms(ir):
        why = _sentinel_semantics(ir, var, SENT, MAGIC)
        if why is None:
            return True, 'inline test (folded on a grid of widths and values)'
    # flat_is_garbage(self, var) [&& flat_garbage_check(...)]
    first = lx.conjuncts(ir)[0]
    if first[0] == 'call' and lx.show(first[1]) == 'flat_is_garbage' and len(first[2]) == 2 and lx.show(first[2][1]) == var:
        return True, 'flat_is_garbage(value) test'
    # any other unit-local predicate: its value, as one expression with the arguments substituted, must be the sentinel test
    if first[0] == 'call' and lx.show(first[1]) in cu.funcs:
        pname = lx.show(first[1])
        val = lx.c_fn_value_ir(cu.body(pname), cu.src_of)
        params = cu.params(pname)
        if val is not None and len(params) == len(first[2]):
            whole = lx.ir_subst(val, dict(zip(params, first[2])))
            sh = _sentinel_shape(whole, cu)
            if sh is not None:
                return (sh == (var, 32, SENT, MAGIC)), f'{pname}(..) = inline test {sh}'
            if var in lx.syms(whole) and _sentinel_semantics(whole, var, SENT, MAGIC) is None:
                return True, f'{pname}(..) is the sentinel test (folded on a grid)'
    return False, f'next test is {cu.src_of(nxt.ast)[:80]}'


# ---------------------------------------------------------------- C07.COPYIN

def _minmax(ir: lx.IR) -> Optional[Tuple[str, str, str]]:
    """(a < b) ? a : b -> ('min', a, b);  (a > b) ? a : b -> ('max', a, b)"""
    if ir[0] == 'cond' and ir[1][0] == 'cmp' and len(ir[1][1]) == 1:
        op = ir[1][1][0]
        a, b = lx.show(ir[1][2][0]), lx.show(ir[1][2][1])
        x, y = lx.show(ir[2]), lx.show(ir[3])
        if {x, y} == {a, b}:
            pick_first = (x == a)
            if op in ('<', '<='):
                return ('min' if pick_first else 'max', *sorted((a, b)))
            if op in ('>', '>='):
                return ('max' if pick_first else 'min', *sorted((a, b)))
    return None


def _locate_fill(cu: CUnit) -> Dict[str, Any]:
    """the sentinel fill of the flat window: the assignment `flat[..] = <fill value>` whose value is a local initialised with the
    width-selected sentinel, in mem_decide_storage itself or in a static helper it calls once (then `call` is the call site in
    mem_decide_storage and `bind` maps the helper's parameters to the argument texts)."""
    found = []
    for fname in cu.funcs:
        for n in walk(cu.body(fname)):
            if is_assign(n):
                m = _mem_of(strip(n['inner'][0]))
                rhs = strip(n['inner'][1])
                if m and m[0] == 'flat' and rhs.get('kind') == 'DeclRefExpr':
                    var = rhs['referencedDecl']['name']
                    decl = [d for d in walk(cu.body(fname)) if d.get('kind') == 'VarDecl' and d.get('name') == var and d.get('inner')]
                    if decl and 'GARBAGE_SENTINEL' in cu.src_of(decl[0]) and 'FLAT_GARBAGE_MAGIC' in cu.src_of(decl[0]):
                        found.append((fname, n, decl[0]))
    if len(found) != 1:
        raise AnalysisError(f'C07: expected exactly one sentinel fill of the flat window, found {[f for f, _, _ in found]}')
    fname, assign, decl = found[0]
    out: Dict[str, Any] = dict(fn=fname, assign=assign, decl=decl, call=None, bind={})
    if fname != 'mem_decide_storage':
        sites = [c for c in walk(cu.body('mem_decide_storage')) if c.get('kind') == 'CallExpr' and callee(c) == fname]
        if len(sites) != 1:
            raise AnalysisError(f'C07: the fill helper {fname} is not called exactly once from mem_decide_storage')
        out['call'] = sites[0]
        out['bind'] = {p_: cu.src_of(a).replace('->', '.') for p_, a in zip(cu.params(fname), call_args(sites[0]))}
    return out


def rule_copyin(rep: Report, cu: CUnit) -> None:
    rep.rule('C07.COPYIN', 'mem_decide_storage builds the flat window in this order: sentinel fill of the whole window, '
             'zero fill of every segment clamped to the window, copy of every allocated page intersected with every '
             'segment and clamped to the window (max of starts, min of ends, lo < hi)', 6)
    fname = 'mem_decide_storage'
    order: List[Tuple[str, int]] = []
    fl = _locate_fill(cu)
    # an extracted void helper (the page copy-in, the zero fill) reads like the code it was extracted from; the fill helper
    # keeps its own treatment (_locate_fill binds its parameters)
    cu.inline_void_helpers(fname, keep=[fl['fn']] if fl['fn'] != fname else [])
    body = cu.body(fname)
    fl = _locate_fill(cu)              # the same fill, as a node of the (possibly inlined) body
    # the names that denote the window end: low_max_end, a field assigned once from it, a local defined once as one of those
    window = {'low_max_end'}
    for _ in range(3):
        for n in walk(body):
            tgt, val = None, None
            if is_assign(n):
                tgt, val = lx.show(c_ir(n['inner'][0], cu.src_of)), lx.show(c_ir(n['inner'][1], cu.src_of))
            elif n.get('kind') == 'VarDecl' and n.get('inner'):
                init = [c for c in n['inner'] if isinstance(c, dict) and c.get('kind')]
                if init:
                    tgt, val = n['name'], lx.show(c_ir(init[-1], cu.src_of))
            if tgt and val in window and tgt not in window:
                others = [x for x in walk(body) if is_assign(x) and lx.show(c_ir(x['inner'][0], cu.src_of)) == tgt]
                if len(others) <= 1:
                    window.add(tgt)
    def w_(name: Optional[str]) -> Optional[str]:
        return 'low_max_end' if name in window else name
    fill_at = fl['call'] if fl['call'] is not None else fl['assign']
    # program order = pre-order position in the (inlined) body, not the source offset
    for pos, n in enumerate(walk(body)):
        if n is fill_at:
            order.append(('fill', pos))
        if n.get('kind') == 'CallExpr' and callee(n) in ('memset', 'memcpy'):
            order.append((callee(n), pos))
    kinds = [k for k, _ in sorted(order, key=lambda t: t[1])]
    rep.check(kinds == ['fill', 'memset', 'memcpy'], 'C07.COPYIN', 'order', f'{kinds}', cu.site(cu.func(fname)),
              expected="['fill', 'memset', 'memcpy']")
    defs = {}
    for n in walk(body):
        if n.get('kind') == 'VarDecl' and n.get('inner'):
            init = [c for c in n['inner'] if isinstance(c, dict) and c.get('kind')]
            if init:
                defs.setdefault(n['name'], []).append(c_ir(init[-1], cu.src_of))
        elif is_assign(n) and strip(n['inner'][0]).get('kind') == 'DeclRefExpr':
            defs.setdefault(strip(n['inner'][0])['referencedDecl']['name'], []).append(c_ir(n['inner'][1], cu.src_of))
    # a loop that walks the segment table by pointer names the element `p->f`; it reads as `m.segments[seg].f`
    walkers: Dict[str, str] = {}
    for lp in [x for x in walk(body) if x.get('kind') == 'ForStmt']:
        sp = for_iteration_space(cu, fname, lp)
        if sp is not None and sp['base'] == 'm.segments':
            walkers[sp['var']] = 'm.segments[seg]'
    def el_(name: Optional[str]) -> Optional[str]:
        if name and '.' in name and name.split('.', 1)[0] in walkers:
            return walkers[name.split('.', 1)[0]] + '.' + name.split('.', 1)[1]
        return name
    def mm(name: str) -> Optional[Tuple[str, str, str]]:
        vals = defs.get(name, [])
        r = next((_minmax(v) for v in vals if _minmax(v)), None)          # (a later clamp assignment is judged separately)
        return (r[0], *sorted((el_(w_(r[1])) or '', el_(w_(r[2])) or ''))) if r else None
    # the locals that play the roles, found by what the two bulk calls do with them (not by their names):
    #   memset(FLAT + A, 0, (B - A) * size)  ->  zero_lo = A, zero_hi = B;   memcpy(FLAT + A, PAGE + (A - P), (B - A) * size)  ->  lo, hi, P
    role = {'zero_lo': 'start', 'zero_hi': 'end_clamped', 'lo': 'lo', 'hi': 'hi', 'page_start': 'page_start', 'page_end': 'page_end'}
    def through(n: Dict[str, Any]) -> Any:
        ir = c_ir(n, cu.src_of)
        for _ in range(3):
            if ir[0] == 'sym' and len(defs.get(ir[1], [])) == 1:
                ir = defs[ir[1]][0]
        return ir
    for c in [x for x in walk(body) if x.get('kind') == 'CallExpr' and callee(x) in ('memset', 'memcpy')]:
        a_ = call_args(c)
        d0, cnt = through(a_[0]), through(a_[2])
        if d0[0] == 'bin' and d0[1] == '+' and d0[3][0] == 'sym' and cnt[0] == 'bin' and cnt[1] == '*':
            span = cnt[2] if cnt[2][0] == 'bin' else cnt[3]
            if span[0] == 'bin' and span[1] == '-' and span[3] == d0[3] and span[2][0] == 'sym':
                if callee(c) == 'memset':
                    role['zero_lo'], role['zero_hi'] = d0[3][1], span[2][1]
                else:
                    role['lo'], role['hi'] = d0[3][1], span[2][1]
                    s0 = through(a_[1])
                    if s0[0] == 'bin' and s0[1] == '+' and s0[3][0] == 'bin' and s0[3][1] == '-' and s0[3][3][0] == 'sym':
                        role['page_start'] = s0[3][3][1]
    # the page end: the local defined as page start + PAGE_WORDS
    for nm, vals in defs.items():
        if len(vals) == 1 and lx.show(vals[0]).replace(' ', '') in (f'({role["page_start"]}+PAGE_WORDS)', f'({role["page_start"]}+{cu.macro_int("PAGE_WORDS")})'):
            role['page_end'] = nm
    # the segment's own bounds may be named by locals (`start = m->segments[seg].start`): read through
    def seg_(name: Optional[str]) -> Optional[str]:
        vals = defs.get(name or '', [])
        if name and len(vals) == 1 and lx.show(vals[0]).startswith('m.segments['):
            return lx.show(vals[0])
        return name
    def mm2(name: str) -> Optional[Tuple[str, str, str]]:
        r = mm(name)
        return (r[0], *sorted((el_(seg_(r[1])) or '', el_(seg_(r[2])) or ''))) if r else None
    PS, PE = role['page_start'], role['page_end']
    rep.check(mm2(role['zero_hi']) == ('min', 'low_max_end', 'm.segments[seg].end'), 'C07.COPYIN', 'zero-fill clamp',
              f'{role["zero_hi"]} = {mm2(role["zero_hi"])}', cu.site(cu.func(fname)), expected='min(segment end, window end)')
    rep.check(mm2(role['lo']) == ('max', *sorted(('m.segments[seg].start', PS))), 'C07.COPYIN', 'copy lo',
              f'{role["lo"]} = {mm2(role["lo"])}', cu.site(cu.func(fname)), expected='max(segment start, page start)')
    rep.check(mm2(role['hi']) == ('min', *sorted(('m.segments[seg].end', PE))), 'C07.COPYIN', 'copy hi',
              f'{role["hi"]} = {mm2(role["hi"])}', cu.site(cu.func(fname)), expected='min(segment end, page end)')
    # guards of memset / memcpy and window clamp of hi
    g = build_c_cfg(cu, fname)
    IN = path_conditions(g, g.entry, c_assigned, c_mentions)
    for node in g.nodes:
        if node.kind != 'stmt' or not isinstance(node.ast, dict):
            continue
        for c in [x for x in walk(node.ast) if x.get('kind') == 'CallExpr' and callee(x) in ('memset', 'memcpy')]:
            conds = {cu.src_of(g.nodes[nid].ast) + ':' + pol for nid, pol in (IN.get(node.id) or frozenset())}
            need = f'{role["zero_lo"]} < {role["zero_hi"]}:T' if callee(c) == 'memset' else f'{role["lo"]} < {role["hi"]}:T'
            rep.check(need in conds, 'C07.COPYIN', f'{callee(c)}:guard', f'guards {sorted(conds)[:6]}', cu.site(c, fname),
                      expected=need)
    def _clamp_if(n: Dict[str, Any]) -> bool:
        if n.get('kind') != 'IfStmt':
            return False
        t = c_ir(n['inner'][0], cu.src_of)
        if not (t[0] == 'cmp' and len(t[1]) == 1):
            return False
        a, b, op = lx.show(t[2][0]), lx.show(t[2][1]), t[1][0]
        HI = role['hi']
        if not ((op in ('>', '>=') and a == HI and w_(b) == 'low_max_end') or (op in ('<', '<=') and b == HI and w_(a) == 'low_max_end')):
            return False
        return any(is_assign(x) and lx.show(c_ir(x['inner'][0], cu.src_of)) == HI and w_(lx.show(c_ir(x['inner'][1], cu.src_of))) == 'low_max_end'
                   for x in walk(n['inner'][1]))
    clamp = any(_clamp_if(n) for n in walk(body))
    rep.check(clamp, 'C07.COPYIN', 'copy hi window clamp', 'if (hi > low_max_end) hi = low_max_end', cu.site(cu.func(fname)))
    # every build loop covers its whole range: `for (v = 0; v < BOUND; v++)`, no early exit, the only skip is an
    # unallocated slot.  (a `break` after the first copied intersection loses the second segment sharing a page.)
    expected_bounds = {'fill': ['low_max_end'], 'memset': ['m.segment_count'],
                       'memcpy': ['m.slot_count', 'm.segment_count']}
    def loops_around(target: dict) -> List[dict]:
        out, cur = [], target
        while cur is not None:
            cur = cu.parent(cur)
            if isinstance(cur, dict) and cur.get('kind') in ('ForStmt', 'WhileStmt', 'DoStmt'):
                out.append(cur)
        return list(reversed(out))
    targets: Dict[str, dict] = {'fill': fl['assign']}
    for n in walk(body):
        if n.get('kind') == 'CallExpr' and callee(n) in ('memset', 'memcpy'):
            targets[callee(n)] = n
    for kind, bounds in expected_bounds.items():
        t = targets.get(kind)
        if t is None:
            continue
        loops = loops_around(t)
        got = []
        for lp in loops:
            if lp.get('kind') != 'ForStmt':
                got.append(lp.get('kind'))
                continue
            lbody = (lp['inner'] + [None] * 5)[4]
            sp = for_iteration_space(cu, fname, lp)
            var = sp['var'] if sp is not None else None
            ok_shape = sp is not None and (sp['base'] is None or (sp['base'] == 'm.segments' and kind != 'fill'))
            bound_txt = sp['bound'] if ok_shape else f'?{cu.src_of(lp)[:50]}'
            if kind == 'fill':
                bound_txt = fl['bind'].get(bound_txt, bound_txt)          # a helper's parameter reads as the argument passed
                bound_txt = w_(bound_txt) or bound_txt
            got.append(bound_txt)
            exits = []
            for x in walk(lbody) if isinstance(lbody, dict) else []:
                k = x.get('kind')
                if k in ('BreakStmt', 'ReturnStmt', 'GotoStmt'):
                    exits.append(k)
                elif k == 'ContinueStmt':
                    par = cu.parent(x)
                    while isinstance(par, dict) and par.get('kind') == 'CompoundStmt':
                        par = cu.parent(par)
                    if not (isinstance(par, dict) and par.get('kind') == 'IfStmt'
                            and cu.src_of(par['inner'][0]).replace(' ', '') == '!m->slots[i].key_plus1'):
                        exits.append('continue')
                elif var is not None and (is_assign(x) or x.get('kind') == 'CompoundAssignOperator'
                                          or (k == 'UnaryOperator' and x.get('opcode') in ('++', '--'))):
                    if cu.src_of(x['inner'][0]) == var:
                        exits.append(f'{var} modified')
            rep.check(not exits, 'C07.COPYIN', f'{kind}:loop over {got[-1]} runs to the end', f'{exits}',
                      cu.site(lp, fname), expected='no break / return / goto / counter update inside the build loop')
        rep.check(got == bounds, 'C07.COPYIN', f'{kind}:loop range', f'{got}', cu.site(t, fname), expected=f'{bounds}')


# ---------------------------------------------------------------- C07.MEMBERSHIP

def rule_membership(rep: Report, cu: CUnit) -> None:
    rep.rule('C07.MEMBERSHIP', 'which words belong to a segment is the half-open range [start, end) in every place that decides it, folded on '
             'the four boundary words start-1, start, end-1, end: the fast path of access_check (the page\'s valid range), the linear '
             'scan of the flat window (flat_seg_contains), and the binary search word_is_valid (go left iff the word is below the '
             'segment, go right iff it is at or above its end, found otherwise) with a well-formed halving step', 3)
    S, E = 40, 50
    pts = [S - 1, S, S + 1, E - 1, E, E + 1]
    for f_ in ('access_check', 'flat_seg_contains', 'word_is_valid'):
        cu.inline_pure_locals(f_)                    # a named range test / a pointer to the probed segment reads as what it names

    def fold(ir: Any, env: Dict[str, int]) -> Optional[bool]:
        try:
            return bool(lx.eval_ir(ir, env))
        except lx.Unrecognised:
            return None
    # access_check: the condition under which it answers "valid" without consulting the segment table
    ac = cu.body('access_check')
    first_if = next((n for n in ac.get('inner', []) if isinstance(n, dict) and n.get('kind') == 'IfStmt'), None)
    bad = []
    if first_if is None:
        bad.append('no fast-path test')
    else:
        ir = lx.ir_subst(c_ir(first_if['inner'][0], cu.src_of), alias_binding(cu, 'access_check'))
        # when the test is merged with the slow path (`fast || word_is_valid(..) || !garbage_stop`): read it with the segment table
        # answering "no" in stop mode - what remains is what the fast path alone accepts
        def no_table(e: Any) -> Any:
            if isinstance(e, tuple):
                if e and e[0] == 'call' and e[1][0] == 'sym' and e[1][1] == 'word_is_valid':
                    return ('num', 0)
                return tuple(no_table(x) for x in e)
            if isinstance(e, list):
                return [no_table(x) for x in e]
            return e
        ir = no_table(ir)
        for w_ in pts:
            got = fold(ir, {'off': w_, 'page.valid_start': S, 'page.valid_end': E, 'word_address': w_, 'PAGE_MASK': (1 << 30) - 1, 'm.garbage_stop': 1})
            # the fast path may answer for fewer words (the segment table is consulted for the rest), never for more
            if got is None or (got and not (S <= w_ < E)):
                bad.append(f'offset {w_} with valid range [{S}, {E}): fast path says {got}')
        rets = [r for r in walk(first_if['inner'][1]) if r.get('kind') == 'ReturnStmt']
        if not (rets and (int_value(strip(rets[0]['inner'][0])) or 0) != 0):
            bad.append('the fast path does not answer "valid"')
    rep.check(not bad, 'C07.MEMBERSHIP', 'access_check:fast-path', bad[0] if bad else 'answers "valid" only for valid_start <= offset < valid_end',
              cu.site(cu.func('access_check'), 'access_check'))
    # flat_seg_contains / word_is_valid: conditions over (word_address, segment start, segment end)
    def seg_env(w_: int, idx: str) -> Dict[str, int]:
        return {'word_address': w_, f'm.segments[{idx}].start': S, f'm.segments[{idx}].end': E}
    fs = cu.body('flat_seg_contains')
    conds = [n for n in walk(fs) if n.get('kind') == 'IfStmt']
    bad = []
    if len(conds) != 1:
        bad.append(f'{len(conds)} tests')
    else:
        ir = c_ir(conds[0]['inner'][0], cu.src_of)
        idx = next((lx.show(x[2]) for x in [ir] if False), None)
        syms = sorted(lx.syms(ir))
        seg_idx = next((re.search(r'segments\[(\w+)\]', s_).group(1) for s_ in syms if 'segments[' in s_), 'seg')
        for w_ in pts:
            got = fold(ir, seg_env(w_, seg_idx))
            if got is None or got != (S <= w_ < E):
                bad.append(f'word {w_} with segment [{S}, {E}): contained={got}')
    rep.check(not bad, 'C07.MEMBERSHIP', 'flat_seg_contains', bad[0] if bad else 'start <= word < end', cu.site(cu.func('flat_seg_contains'), 'flat_seg_contains'))
    wv = cu.body('word_is_valid')
    loop = next((n for n in walk(wv) if n.get('kind') == 'WhileStmt'), None)
    bad = []
    if loop is None:
        bad.append('no search loop')
    else:
        lc = c_ir(loop['inner'][0], cu.src_of)
        if not (lc[0] == 'cmp' and list(lc[1]) == ['<='] and lc[2][0][0] == 'sym' and lc[2][1][0] == 'sym'):
            bad.append(f'loop condition {lx.show(lc)} is not lo <= hi')
        else:
            lo, hi = lc[2][0][1], lc[2][1][1]
            # the chain of tests inside the loop: each branch by what it does
            chain = []
            node = next((n for n in walk(loop['inner'][1]) if n.get('kind') == 'IfStmt'), None)
            while node is not None:
                chain.append((c_ir(node['inner'][0], cu.src_of), node['inner'][1]))
                nxt = node['inner'][2] if len(node['inner']) > 2 else None
                if isinstance(nxt, dict) and nxt.get('kind') == 'IfStmt':
                    node = nxt
                else:
                    chain.append((None, nxt))
                    node = None
            def action(b: Any) -> str:
                if not isinstance(b, dict):
                    return 'none'
                for x in walk(b):
                    if is_assign(x) and cu.src_of(x['inner'][0]) == hi:
                        return 'left:' + lx.show(c_ir(x['inner'][1], cu.src_of))
                    if is_assign(x) and cu.src_of(x['inner'][0]) == lo:
                        return 'right:' + lx.show(c_ir(x['inner'][1], cu.src_of))
                    if x.get('kind') == 'ReturnStmt' and x.get('inner') and (int_value(strip(x['inner'][0])) or 0) != 0:
                        return 'found'
                return 'none'
            mid_defs = [d for d in local_defs(cu, 'word_is_valid').get('mid', []) if d is not None]
            mid_ok = len(mid_defs) == 1 and lx.show(c_ir(mid_defs[0], cu.src_of)).replace(' ', '') in (f'(({lo}+{hi})/2)', f'({lo}+(({hi}-{lo})/2))', f'(({hi}+{lo})/2)')
            if not mid_ok:
                bad.append(f'mid = {[cu.src_of(d) for d in mid_defs]}')
            for w_ in pts:
                taken = None
                for cond, body_ in chain:
                    ok_ = True if cond is None else fold(cond, seg_env(w_, 'mid'))
                    if ok_ is None:
                        taken = 'unreadable'
                        break
                    if ok_:
                        taken = action(body_)
                        break
                want = 'left:(mid-1)' if w_ < S else 'right:(mid+1)' if w_ >= E else 'found'
                if (taken or '').replace(' ', '') != want:
                    bad.append(f'word {w_} against segment [{S}, {E}): {taken}, expected {want}')
    rep.check(not bad, 'C07.MEMBERSHIP', 'word_is_valid', bad[0] if bad else 'left iff below start, right iff at / above end, found otherwise; mid = (lo + hi) / 2',
              cu.site(cu.func('word_is_valid'), 'word_is_valid'))


# ---------------------------------------------------------------- C07.MODE

def rule_mode(rep: Report, cu: CUnit, repo: Repo) -> None:
    rep.rule('C07.MODE', 'Memory_run selects the loop by (measure env & no ring) -> measured; (flat & no ring) -> flat '
             'loop; else the generic loop with a ring iff last_ops_length > 0; storage_mode reports '
             'flat/hybrid/paged from (flat, flat_covers_all); fjm_run passes maxlen or 0 as the ring length', 5)
    fname = 'Memory_run'
    g = build_c_cfg(cu, fname)
    IN = path_conditions(g, g.entry, c_assigned, c_mentions)
    # (bool_form reads `x == 0` as the negated truthiness atom of x, `p != NULL` / `p` as the truthiness atom of p)
    no_ring = ('not', ('atom', 'last_ops_length'))
    flat_no_ring = ('and', [('atom', 'self.flat'), no_ring])
    measured = ('and', [('atom', 'measure_speculation'), ('atom', "'1' == measure_speculation[0]"), no_ring])
    want = {
        'run_measured_loop': ('measured', measured),
        dispatcher_of(cu, 'run_flat_loop_impl'): ('flat and no ring', flat_no_ring),
        dispatcher_of(cu, 'run_paged_loop_impl'): ('not (flat and no ring)', ('not', flat_no_ring)),
    }
    found = set()
    for node in g.nodes:
        if not isinstance(node.ast, dict) or node.kind not in ('stmt', 'cond'):
            continue
        for c in [x for x in walk(node.ast) if x.get('kind') == 'CallExpr' and callee(x) in want]:
            facts = []
            shown = []
            for nid, pol in (IN.get(node.id) or frozenset()):
                f_ = lx.bool_form(c_ir(g.nodes[nid].ast, cu.src_of))
                facts.append(f_ if pol == 'T' else ('not', f_))
                shown.append(cu.src_of(g.nodes[nid].ast) + ':' + pol)
            found.add(callee(c))
            label, goal = want[callee(c)]
            try:
                okm = lx.bf_implies(facts, goal)
            except lx.Unrecognised:
                okm = False
            rep.check(okm, 'C07.MODE', f'Memory_run:{callee(c)}', f'selected under {sorted(shown)}',
                      cu.site(c, fname), expected=label)
    if found != set(want):
        raise AnalysisError(f'Memory_run: loop dispatch sites missing: {set(want) - found}')
    # ring allocated iff last_ops_length > 0
    ring_ok = False
    for node in g.nodes:
        # the allocation of the ring, as a statement or embedded in its own NULL test (`if ((ring = calloc(..)) == NULL)`)
        if isinstance(node.ast, dict) and node.kind in ('stmt', 'cond') and any(
                is_assign(x) and cu.src_of(x['inner'][0]) == 'last_ops_ring' and any(
                    c.get('kind') == 'CallExpr' and callee(c) in ('calloc', 'malloc') for c in walk(x['inner'][1]))
                for x in walk(node.ast)):
            facts_ = [lx.bool_form(c_ir(g.nodes[nid].ast, cu.src_of)) if pol == 'T' else ('not', lx.bool_form(c_ir(g.nodes[nid].ast, cu.src_of)))
                      for nid, pol in (IN.get(node.id) or frozenset())]
            ring_ok = any(lx.bf_equiv(f_, ('atom', 'last_ops_length > 0')) or lx.bf_equiv(f_, lx.bool_form(('cmp', ['>'], [('sym', 'last_ops_length'), ('num', 0)])))
                          for f_ in facts_)
    rep.check(ring_ok, 'C07.MODE', 'Memory_run:ring-allocation', 'ring allocated exactly when last_ops_length > 0',
              cu.site(cu.func(fname)))
    # storage_mode: the string reported for each (flat allocated?, covers all?) - a nested ternary or an if chain of returns, read
    # as one expression after the "not decided yet" guard and folded for the four cases
    smb = cu.body('Memory_get_storage_mode')
    stmts_ = [x for x in smb.get('inner', []) if isinstance(x, dict)]
    # drop the leading guard that returns None while storage is undecided
    tail = [x for x in stmts_ if not (x.get('kind') == 'IfStmt' and 'storage_decided' in cu.src_of(x['inner'][0]))
            and x.get('kind') not in ('DeclStmt',) and 'closure' not in cu.src_of(x)]
    val = lx.c_fn_value_ir({'kind': 'CompoundStmt', 'inner': tail}, cu.src_of)

    def leaf_string(e: Any, env: Dict[str, int]) -> Optional[str]:
        if e[0] == 'cond':
            try:
                return leaf_string(e[2] if lx.eval_ir(e[1], env) else e[3], env)
            except lx.Unrecognised:
                return None
        if e[0] == 'call' and 'PyUnicode_FromString' in lx.show(e[1]) and len(e[2]) == 1:
            return leaf_string(e[2][0], env)
        if e[0] == 'other':
            return str(e[1]).strip('"')
        return None
    table = {}
    if val is not None:
        for fl in (0, 1):
            for cov in (0, 1):
                table[(fl, cov)] = leaf_string(val, {'self.flat': fl, 'self.flat_covers_all': cov})
    want_t = {(0, 0): 'paged', (0, 1): 'paged', (1, 0): 'hybrid', (1, 1): 'flat'}
    rep.check(table == want_t, 'C07.MODE', 'storage_mode', str(table) if val is not None else 'the getter is not a pure expression after its guard',
              cu.site(cu.func('Memory_get_storage_mode')), expected='no flat array -> paged; flat covering every segment -> flat; else hybrid')
    fn = repo.func(RUN_REL, '_run_native')
    # the value handed over, read through a local that is assigned it (possibly by `x = 0` + `if C: x = maxlen`)
    from ..pyfacts import conditional_value, cc as _cc, cn as _cn
    kw = []
    for c in ast.walk(fn):
        if isinstance(c, ast.Call) and dotted(c.func) == 'core.run':
            for k in c.keywords:
                if k.arg == 'last_ops_length':
                    v = k.value
                    if isinstance(v, ast.Name):
                        v = conditional_value(fn, v.id) or v
                    if isinstance(v, ast.IfExp) and _cn(v.test) == _cc('not (last_ops is not None and last_ops.maxlen)'):
                        v = ast.IfExp(test=ast.parse('last_ops is not None and last_ops.maxlen', mode='eval').body, body=v.orelse, orelse=v.body)
                    if isinstance(v, ast.IfExp) and _cn(v.test) == _cc('last_ops is not None and last_ops.maxlen'):
                        kw.append(f'{norm(v.body)} if last_ops is not None and last_ops.maxlen else {norm(v.orelse)}')
                    else:
                        kw.append(norm(v))
    rep.check(kw == ['last_ops.maxlen if last_ops is not None and last_ops.maxlen else 0'], 'C07.MODE',
              '_run_native:last_ops_length', f'{kw}', f'{RUN_REL}:{fn.lineno} _run_native',
              expected='the deque maxlen, or 0 when no last-ops list is requested')


# ---------------------------------------------------------------- C07.RECORD

def rule_record(rep: Report, cu: CUnit, repo: Repo) -> None:
    rep.rule('C07.RECORD', 'the last-ops ring is written with ip as the first event of the step (slot = writes % length) '
             'and emitted oldest-first; the Python loops append ip first; _run_native extends the deque in order', 5)
    env = Env({})
    L = CLoop(cu, 'run_paged_loop_impl', M.ROLES_C['run_paged_loop_impl'], {'with_ring': 1})
    ring_idx = None
    for n in walk(cu.body('run_paged_loop_impl')):
        if is_assign(n):
            l0 = strip(n['inner'][0])
            if l0.get('kind') == 'ArraySubscriptExpr' and cu.src_of(l0['inner'][0]) == 'last_ops_ring':
                ring_idx = lx.canon(c_ir(l0['inner'][1], cu.src_of), env)
                blk = cu.parent(n) or n
                inc = any(cu.src_of(x).replace(' ', '') in ('ring_writes++', '++ring_writes', 'ring_writes+=1', 'ring_writes=ring_writes+1')
                          for x in walk(blk)) or 'ring_writes++' in cu.src_of(blk)
    rep.check(ring_idx == '(ring_writes)%(last_ops_length)' and inc, 'C07.RECORD', 'ring-write', f'slot {ring_idx}, inc={inc}',
              cu.site(cu.func('run_paged_loop_impl')), expected='ring[writes % length] = ip; writes++')
    # the emitter: the function (outside the run loops) that READS the ring into the python list
    emitters = []
    for fname in cu.funcs:
        if fname in ('run_paged_loop_impl', 'run_flat_loop_impl', 'run_measured_loop'):
            continue
        for x in walk(cu.body(fname)):
            if x.get('kind') == 'ArraySubscriptExpr' and cu.src_of(x['inner'][0]) == 'last_ops_ring':
                par = cu.parent(x)
                while isinstance(par, dict) and par.get('kind') in ('ImplicitCastExpr', 'ParenExpr'):
                    par = cu.parent(par)
                if not (isinstance(par, dict) and is_assign(par) and strip(par['inner'][0]) is x):
                    emitters.append(fname)
    emitters = sorted(set(emitters))
    if len(emitters) != 1:
        raise AnalysisError(f'C07.RECORD: expected exactly one function that reads last_ops_ring into the result, found {emitters}')
    emit = emitters[0]
    # single-definition locals that merely rename a parameter (ring_length = (uint64_t)last_ops_length) read as what they rename;
    # a local counts as defined by its declaration initialiser or by its only plain assignment
    al = alias_binding(cu, emit)
    defs = {}
    for name_, vals in local_defs(cu, emit).items():
        if len(vals) == 1 and vals[0] is not None:
            defs[name_] = lx.canon(lx.ir_subst(c_ir(vals[0], cu.src_of), al), env)
    cursors = wrapping_cursors(cu, emit)
    for cname, cur in cursors.items():
        defs[cname] = lx.canon(cur['init'], env)          # the cursor's value in iteration 0
    # roles by what the locals are, not by their names: total = min(writes, length); start = (pos + length - total) % length
    total_names = [k for k, v in defs.items() if v == '((ring_writes < last_ops_length)?ring_writes:last_ops_length)']
    rep.check(len(total_names) == 1, 'C07.RECORD', 'emit:total', f'{total_names or defs}', cu.site(cu.func(emit)), expected='min(writes, length)')
    tn = total_names[0] if total_names else 'total'
    pos_names = [k for k, v in defs.items() if v == '(ring_writes)%(last_ops_length)']
    pn = pos_names[0] if pos_names else 'ring_pos'
    start_names = [k for k, v in defs.items() if v == f'(last_ops_length + {pn} - {tn})%(last_ops_length)']
    rep.check(len(start_names) == 1 and len(pos_names) == 1, 'C07.RECORD', 'emit:start',
              f'start={start_names} ring_pos={pos_names}', cu.site(cu.func(emit)), expected='(pos + length - total) % length')
    sn = start_names[0] if start_names else 'start'
    elem = []
    for x in walk(cu.body(emit)):
        if x.get('kind') == 'ArraySubscriptExpr' and cu.src_of(x['inner'][0]) == 'last_ops_ring':
            ir = lx.ir_subst(c_ir(x['inner'][1], cu.src_of), al)
            if ir[0] == 'sym' and ir[1] in cursors:
                # a wrapping cursor read in iteration i of its loop (i = 0, 1, ..) is (its initial value + i) % modulus
                lp = cursors[ir[1]]['loop']
                counter = None
                if lp.get('kind') == 'ForStmt' and isinstance(lp['inner'][0], dict):
                    i0 = [y for y in walk(lp['inner'][0]) if (is_assign(y) and int_value(strip(y['inner'][1])) == 0) or
                          (y.get('kind') == 'VarDecl' and y.get('inner') and int_value(strip(y['inner'][-1])) == 0)]
                    if i0:
                        counter = i0[0]['name'] if i0[0].get('kind') == 'VarDecl' else cu.src_of(i0[0]['inner'][0])
                order_ = [id(y) for y in walk(lp)]
                before_inc = id(x) in order_ and id(cursors[ir[1]]['inc']) in order_ and order_.index(id(x)) < order_.index(id(cursors[ir[1]]['inc']))
                ir = ('bin', '%', ('bin', '+', ('sym', ir[1]), ('sym', (counter or '?') if before_inc else f'{counter}+1')), cursors[ir[1]]['mod'])
            elem.append(lx.canon(ir, env))
    # the loop runs i = 0 .. total-1 in ascending order
    rep.check(elem in ([f'(i + {sn})%(last_ops_length)'], [f'({sn} + i)%(last_ops_length)']), 'C07.RECORD', 'emit:order', str(elem),
              cu.site(cu.func(emit)), expected='ring[(start + i) % length] for i ascending')
    # _run_native: the deque is extended once per exit path, in order: from the returned list on the normal path, and (if the
    # exception path reports the list at all) from the engine's kept copy inside a handler that re-raises
    fn = repo.func(RUN_REL, '_run_native')
    ext_ok, ext_seen = True, []
    for c in ast.walk(fn):
        if isinstance(c, ast.Call) and dotted(c.func) == 'last_ops.extend':
            ext_seen.append(norm(c))
            arg = norm(c.args[0]) if c.args else ''
            handler = [h for h in ast.walk(fn) if isinstance(h, ast.ExceptHandler) and any(x is c for x in ast.walk(h))]
            if arg == 'native_last_ops':
                ext_ok = ext_ok and not handler
            elif arg == 'core.last_run_last_ops':
                ext_ok = ext_ok and len(handler) == 1 and isinstance(handler[0].body[-1], ast.Raise) and handler[0].body[-1].exc is None
            else:
                ext_ok = False
    rep.check(ext_ok and 'last_ops.extend(native_last_ops)' in ext_seen and len(ext_seen) == len(set(ext_seen)), 'C07.RECORD',
              '_run_native:extend', str(ext_seen), f'{RUN_REL}:{fn.lineno} _run_native',
              expected='one extend per exit path: the returned list, or the kept list inside a re-raising handler')


def check(rep: Report, repo: Optional[Repo] = None) -> None:
    repo = repo or Repo()
    cu = CUnit(repo)
    rep.units = dict(c_functions=len(cu.funcs), analysed=['run_paged_loop_impl[with_ring=0/1]', 'run_flat_loop_impl',
                     'mem_read_word', 'mem_flip_bit', 'mem_write_bit', 'Memory_get_word', 'Memory_set_word',
                     'mem_decide_storage', 'Memory_run', 'last_ops_ring_to_list / build_run_result', 'flat_is_garbage', 'flat_garbage_check'])
    rule_cache(rep, cu)
    rule_route(rep, cu)
    rule_sentinel(rep, cu)
    rule_copyin(rep, cu)
    rule_mode(rep, cu, repo)
    rule_record(rep, cu, repo)
    rule_membership(rep, cu)
    # shared with C01: the wrap finding concerns layouts near the top of the address space
    from .c01 import c_clones, rule_addr_wrap, rule_per_op_state
    rule_addr_wrap(rep, cu)
    rule_per_op_state(rep, c_clones(cu, rep.tier))
    rep.not_decided.append('equality of final memory / outputs across layouts for all programs (value-level)')


MANIFEST = dict(
    technique='must-fact dataflow (cache validity) over the C CFG, call-graph closure, predicate/table agreement',
    level_text='Static, structural: page-cache facts are never used after a call that can refill the slot (call-graph '
               'derived), all accessors share one routing predicate, every inline flat read is sentinel-tested with the '
               'width-selected sentinel, the flat window is built fill -> zero -> copy with correct clamps, loop '
               'selection and last-ops ring order are as documented, address arithmetic near 2^64 is wrap-checked. '
               'Necessary conditions of layout independence; final-memory equality itself is not decided.',
    level_note='Trusted: clang 14 front end, fjverif C CFG and extractors. Not decided: value-level equality across engines.',
    design_ref='DESIGN.md section 4 C07',
)
