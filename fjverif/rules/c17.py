"""C17 - bit-level IO devices are byte-exact (transfer-function agreement of the packers/unpackers)."""
from __future__ import annotations

import ast
from typing import Any, Dict, List, Optional, Set, Tuple

from ..core import AnalysisError, Report
from ..pycfg import build_py_cfg
from ..pyfacts import Repo, calls, dotted, norm, raise_guards, raised_class, walk_no_nested

D = 'flipjump/interpreter/io_devices/'
PACKERS = [(D + 'FixedIO.py', 'FixedIO'), (D + 'StandardIO.py', 'StandardIO'), (D + 'KeyboardIO.py', 'KeyboardIO'),
           (D + 'ScreenIO.py', 'InMemoryScreen')]
UNPACKERS = [(D + 'FixedIO.py', 'FixedIO'), (D + 'StandardIO.py', 'StandardIO')]
KBD = D + 'KeyboardIO.py'


def _eq8(test: ast.expr, cnt: str) -> bool:
    return norm(test) in (f'8 == {cnt}', f'{cnt} == 8')


def rule_pack(rep: Report, repo: Repo) -> None:
    rep.rule('C17.PACK', 'all four write_bit bodies reduce to the same transfer function over (accumulator, count): '
             'acc |= bit << count; count += 1; if count == 8: emit(acc); acc, count = 0, 0', 4)
    for rel, cls in PACKERS:
        fn = repo.func(rel, f'{cls}.write_bit')
        body = [s for s in fn.body if not (isinstance(s, ast.Expr) and isinstance(s.value, ast.Constant))]
        site = f'{rel}:{fn.lineno} {cls}.write_bit'
        ok, why = False, 'shape not recognised'
        if len(body) == 3 and isinstance(body[0], ast.AugAssign) and isinstance(body[0].op, ast.BitOr) \
                and isinstance(body[1], ast.AugAssign) and isinstance(body[1].op, ast.Add) and isinstance(body[2], ast.If):
            acc, cnt = norm(body[0].target), norm(body[1].target)
            bit = fn.args.args[1].arg
            s0 = norm(body[0].value) == f'{bit} << {cnt}'
            s1 = norm(body[1].value) == '1'
            s2 = _eq8(body[2].test, cnt) and not body[2].orelse
            # inside the if: the accumulator is emitted, then both are reset to 0
            assigns: Dict[str, str] = {}
            emitted = False
            for st in body[2].body:
                if isinstance(st, ast.Assign):
                    if isinstance(st.targets[0], ast.Tuple) and isinstance(st.value, ast.Tuple):
                        for t, v in zip(st.targets[0].elts, st.value.elts):
                            assigns[norm(t)] = norm(v)
                    else:
                        assigns[norm(st.targets[0])] = norm(st.value)
                elif isinstance(st, ast.AnnAssign) and st.value is not None:
                    assigns[norm(st.target)] = norm(st.value)
            txt = ' ; '.join(norm(s) for s in body[2].body)
            emitted = (f'{acc}.to_bytes(1, \'little\')' in txt) or (assigns.get('byte') == acc and 'self._handle_byte(byte)' in txt)
            reset = assigns.get(acc) == '0' and assigns.get(cnt) == '0'
            # the emission must read the accumulator before it is reset
            first_reset = min([s.lineno for s in body[2].body if isinstance(s, ast.Assign) and norm(s.targets[0]) == acc] or [10 ** 9])
            first_emit = min([n.lineno for s in body[2].body for n in ast.walk(s) if isinstance(n, ast.Attribute) and norm(n) == acc
                              and isinstance(n.ctx, ast.Load)] or [0])
            order = first_emit <= first_reset
            ok = s0 and s1 and s2 and emitted and reset and order
            why = f'acc={acc} cnt={cnt}: or-shift={s0} inc={s1} flush@8={s2} emit={emitted} reset={reset} emit-before-reset={order}'
        rep.check(ok, 'C17.PACK', f'{cls}.write_bit', why, site, expected='lsb-first accumulate, flush at 8, reset')


def rule_unpack(rep: Report, repo: Repo) -> None:
    rep.rule('C17.UNPACK', 'read_bit of the buffering devices refills exactly when the count is 0 (setting it to 8), returns byte & 1, '
             'then shifts right by one and decrements; the keyboard queue helpers enqueue (value >> i) & 1 for ascending i', 4)
    for rel, cls in UNPACKERS:
        fn = repo.func(rel, f'{cls}.read_bit')
        site = f'{rel}:{fn.lineno} {cls}.read_bit'
        body = fn.body
        ok, why = False, 'shape not recognised'
        if len(body) == 5 and isinstance(body[0], ast.If):
            t = norm(body[0].test)
            cnt = t.replace('0 == ', '').replace(' == 0', '')
            refill = {norm(s.targets[0]): norm(s.value) for s in body[0].body if isinstance(s, ast.Assign)}
            byte_v = norm(body[2].target) if isinstance(body[2], ast.AugAssign) else '?'
            s_ref = t in (f'0 == {cnt}', f'{cnt} == 0') and refill.get(cnt) == '8'
            s_bit = isinstance(body[1], ast.Assign) and norm(body[1].value) in (f'{byte_v} & 1 == 1', f'({byte_v} & 1) == 1')
            s_shift = isinstance(body[2], ast.AugAssign) and isinstance(body[2].op, ast.RShift) and norm(body[2].target) == byte_v and norm(body[2].value) == '1'
            s_dec = isinstance(body[3], ast.AugAssign) and isinstance(body[3].op, ast.Sub) and norm(body[3].target) == cnt and norm(body[3].value) == '1'
            s_ret = isinstance(body[4], ast.Return) and isinstance(body[1], ast.Assign) and norm(body[4].value) == norm(body[1].targets[0])
            first_byte = refill.get(byte_v, '')
            s_src = first_byte.endswith('[0]')
            ok = s_ref and s_bit and s_shift and s_dec and s_ret and s_src
            why = f'refill@0->8={s_ref} bit=byte&1={s_bit} shift={s_shift} dec={s_dec} ret={s_ret} next-byte=first unread={s_src}'
        rep.check(ok, 'C17.UNPACK', f'{cls}.read_bit', why, site)
    fx = repo.func(D + 'FixedIO.py', 'FixedIO.read_bit')
    adv = [norm(s) for s in ast.walk(fx) if isinstance(s, ast.Assign) and norm(s.targets[0]) == 'self.remaining_input']
    rep.check(adv == ['self.remaining_input = self.remaining_input[1:]'], 'C17.UNPACK', 'FixedIO:consume-one-byte', str(adv),
              f'{D}FixedIO.py:{fx.lineno}')
    for name, n in (('_queue_input_byte', 8), ('_queue_input_hex', 4)):
        fn = repo.func(KBD, f'KeyboardIO.{name}')
        loop = [s for s in fn.body if isinstance(s, ast.For)]
        ok = len(loop) == 1 and norm(loop[0].iter) == f'range({n})' and \
            norm(loop[0].body[0]) in ('self._pending_input_bits.append(value >> i & 1 == 1)', 'self._pending_input_bits.append((value >> i) & 1 == 1)')
        rep.check(ok, 'C17.UNPACK', f'KeyboardIO.{name}', norm(loop[0]).replace('\n', ' ')[:90] if loop else 'no loop',
                  f'{KBD}:{fn.lineno}', expected=f'append((value >> i) & 1) for i in range({n})')


def rule_eof(rep: Report, repo: Repo) -> None:
    rep.rule('C17.EOF', 'end-of-input is raised exactly in the refill branch when no byte is available; the keyboard never raises it '
             'and polls (queuing at least a nibble) before popping from an empty queue', 4)
    fx = repo.func(D + 'FixedIO.py', 'FixedIO.read_bit')
    g = [(norm(t), raised_class(r), [norm(o) for o in outer]) for t, r, outer in raise_guards(fx)]
    rep.check(g == [('not self.remaining_input', 'IOReadOnEOF', ['0 == self.bits_to_read_in_input_byte'])], 'C17.EOF', 'FixedIO', str(g),
              f'{D}FixedIO.py:{fx.lineno}', expected='raise only when the count is 0 and the input is exhausted')
    sx = repo.func(D + 'StandardIO.py', 'StandardIO.read_bit')
    g = [(norm(t), raised_class(r), [norm(o) for o in outer]) for t, r, outer in raise_guards(sx)]
    rep.check(g == [('0 == len(read_bytes)', 'IOReadOnEOF', ['0 == self.bits_to_read_in_input_byte'])], 'C17.EOF', 'StandardIO', str(g),
              f'{D}StandardIO.py:{sx.lineno}')
    raises = []
    for st in repo.cls(KBD, 'KeyboardIO').body + repo.cls(KBD, 'ScriptedKeyEventSource').body:
        if isinstance(st, ast.FunctionDef) and st.name in ('read_bit', '_poll', '_queue_input_byte', '_queue_input_hex', 'next_due_event'):
            raises += [raised_class(r) for r in ast.walk(st) if isinstance(r, ast.Raise)]
    rep.check(not raises, 'C17.EOF', 'KeyboardIO:never-EOF', f'raises in the read closure: {raises}', KBD)
    rb = repo.func(KBD, 'KeyboardIO.read_bit')
    ok = len(rb.body) == 2 and isinstance(rb.body[0], ast.If) and norm(rb.body[0].test) == 'not self._pending_input_bits' \
        and norm(rb.body[0].body[0]) == 'self._poll()' and norm(rb.body[1]) == 'return self._pending_input_bits.popleft()'
    rep.check(ok, 'C17.EOF', 'KeyboardIO.read_bit:poll-before-pop', ' ; '.join(norm(s).replace('\n', ' ') for s in rb.body)[:100], f'{KBD}:{rb.lineno}')


def rule_incomplete(rep: Report, repo: Repo) -> None:
    rep.rule('C17.INCOMPLETE', 'get_output raises IncompleteOutput iff a partial byte is pending and incomplete output is not allowed', 3)
    for rel, cls in PACKERS[:3]:
        wb = repo.func(rel, f'{cls}.write_bit')
        cnt = norm(wb.body[1].target) if isinstance(wb.body[1], ast.AugAssign) else '?'
        go = repo.func(rel, f'{cls}.get_output')
        g = [(norm(t), raised_class(r)) for t, r, _ in raise_guards(go)]
        ok = g in ([(f'not allow_incomplete_output and 0 != {cnt}', 'IncompleteOutput')], [(f'not allow_incomplete_output and {cnt} != 0', 'IncompleteOutput')])
        ret = [norm(r.value) for r in ast.walk(go) if isinstance(r, ast.Return)]
        rep.check(ok and ret == ['self._output'], 'C17.INCOMPLETE', f'{cls}.get_output', f'{g} returns {ret}', f'{rel}:{go.lineno}')


def rule_kbd(rep: Report, repo: Repo) -> None:
    rep.rule('C17.KBD', 'every path through KeyboardIO._poll asks the source once for the current tic, advances the tic once, queues '
             'exactly one status nibble and the keycode byte iff an event was returned; the status constants are the documented '
             'ones; the scripted source is stably sorted by tic and delivers when event.tic <= tic', 5)
    fn = repo.func(KBD, 'KeyboardIO._poll')
    g = build_py_cfg(fn)
    # enumerate paths (acyclic)
    paths: List[List[int]] = []

    def dfs(n: int, acc: List[int]) -> None:
        if len(acc) > 60:
            raise AnalysisError('_poll: path too long (loop?)')
        if n == g.exit:
            paths.append(acc)
            return
        for m, lab in g.succ[n]:
            if lab in ('exc', 'raise'):
                continue
            dfs(m, acc + [m])
    dfs(g.entry, [g.entry])
    site = f'{KBD}:{fn.lineno} KeyboardIO._poll'
    ok_all = bool(paths)
    detail = []
    for p in paths:
        evs = []
        none_branch = None
        for nid in p:
            a = g.nodes[nid].ast
            if a is None or not isinstance(a, ast.AST):
                continue
            if g.nodes[nid].kind == 'cond' and norm(a) == 'event is None':
                nxt = p[p.index(nid) + 1]
                lab = [l for m, l in g.succ[nid] if m == nxt][0]
                none_branch = (lab == 'T')
            for c in [x for x in ast.walk(a) if isinstance(x, ast.Call)]:
                d = dotted(c.func)
                if d == 'self.event_source.next_due_event':
                    evs.append('ask:' + norm(c.args[0]))
                elif d == 'self._queue_input_hex':
                    evs.append('hex:' + norm(c.args[0]))
                elif d == 'self._queue_input_byte':
                    evs.append('byte:' + norm(c.args[0]))
            if isinstance(a, ast.AugAssign) and norm(a.target) == 'self.tic':
                evs.append('tic+=' + norm(a.value))
        if none_branch is None:
            ok_all = False
        elif none_branch:
            ok = evs == ['ask:self.tic', 'tic+=1', 'hex:self.NO_KEY_STATUS']
        else:
            ok = evs == ['ask:self.tic', 'tic+=1', 'hex:self.KEY_DOWN_STATUS if is_down else self.KEY_UP_STATUS', 'byte:keycode']
        if none_branch is not None and not ok:
            ok_all = False
        detail.append(evs)
    rep.check(ok_all and len(paths) == 2, 'C17.KBD', '_poll:paths', f'{len(paths)} paths: {detail}', site,
              expected='no event: ask, tic+1, status 0; event: ask, tic+1, status 9/8, keycode byte')
    consts = {t.id: norm(st.value) for st in repo.cls(KBD, 'KeyboardIO').body if isinstance(st, ast.Assign) for t in st.targets if isinstance(t, ast.Name)}
    rep.check(consts.get('NO_KEY_STATUS') == '0' and consts.get('KEY_UP_STATUS') == '8' and consts.get('KEY_DOWN_STATUS') == '9', 'C17.KBD',
              'status constants', str(consts), KBD, expected='0x0 / 0x8 / 0x9 as documented in the module docstring')
    doc = ast.get_docstring(repo.mod(KBD)) or ''
    rep.check('0x0 = no event' in doc and '0x8 = a key was released' in doc and '0x9 = a key was pressed' in doc, 'C17.KBD', 'docstring',
              'the documented status values are 0x0/0x8/0x9', KBD)
    init = repo.func(KBD, 'ScriptedKeyEventSource.__init__')
    srt = [norm(s.value) for s in init.body if isinstance(s, ast.Assign) and norm(s.targets[0]) == 'self.events']
    rep.check(srt == ['sorted(events, key=lambda event: event.tic)'], 'C17.KBD', 'scripted:stable-sort-by-tic', str(srt), f'{KBD}:{init.lineno}')
    nd = repo.func(KBD, 'ScriptedKeyEventSource.next_due_event')
    test = [norm(n.test) for n in ast.walk(nd) if isinstance(n, ast.If)]
    body = ' ; '.join(norm(s) for n in ast.walk(nd) if isinstance(n, ast.If) for s in n.body)
    rep.check(test == ['self._next_index < len(self.events) and self.events[self._next_index].tic <= tic']
              and 'self._next_index += 1' in body and 'return (event.is_down, event.keycode)' in body, 'C17.KBD', 'scripted:due-test',
              f'{test} -> {body[:80]}', f'{KBD}:{nd.lineno}')


def check(rep: Report, repo: Optional[Repo] = None) -> None:
    repo = repo or Repo()
    rep.units = dict(devices=[c for _, c in PACKERS], files=sorted({r for r, _ in PACKERS}))
    rule_pack(rep, repo)
    rule_unpack(rep, repo)
    rule_eof(rep, repo)
    rule_incomplete(rep, repo)
    rule_kbd(rep, repo)


MANIFEST = dict(
    technique='reduction of each device method to a canonical transfer function; path enumeration of _poll',
    level_text='Static: the four bit packers and two unpackers each reduce (statement by statement) to the canonical lsb-first '
               'transfer function, EOF/IncompleteOutput are raised under exactly the documented conditions, and every CFG path of '
               'the keyboard poll performs the protocol events in order. Because the methods are straight-line state machines '
               'this decides the byte-exactness clauses structurally for all bit sequences.',
    level_note='Trusted: CPython ast; the canonical forms in rules/c17.py (accepted spellings: `8 == n` / `n == 8`, `0 == n` / `n == 0`).',
    design_ref='DESIGN.md section 4 C17',
)
