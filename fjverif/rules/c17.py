"""C17 - bit-level IO devices are byte-exact (transfer-function agreement of the packers/unpackers)."""
from __future__ import annotations

import ast
import re
from typing import Any, Dict, List, Optional, Set, Tuple

from ..core import AnalysisError, Report
from ..pycfg import build_py_cfg
from ..pysubst import Outcome, method_outcomes
from ..pyfacts import expand_private_calls, Repo, calls, dotted, eval_int_expr, norm, raise_guards, raised_class, walk_no_nested

D = 'flipjump/interpreter/io_devices/'
PACKERS = [(D + 'FixedIO.py', 'FixedIO'), (D + 'StandardIO.py', 'StandardIO'), (D + 'KeyboardIO.py', 'KeyboardIO'),
           (D + 'ScreenIO.py', 'InMemoryScreen')]
UNPACKERS = [(D + 'FixedIO.py', 'FixedIO'), (D + 'StandardIO.py', 'StandardIO')]
KBD = D + 'KeyboardIO.py'


def _pack_names(outs: List[Outcome]) -> Tuple[Optional[str], Optional[str]]:
    """(accumulator attribute, count attribute) of a write_bit: the count is the attribute compared with 8, the accumulator the
    attribute that receives `bit << count | acc` on the no-flush path."""
    import re
    cnt = None
    for o in outs:
        for c in o.conds:
            m = re.fullmatch(r'1 \+ (self\.\w+) (==|!=) 8', c)
            if m:
                cnt = m.group(1)
    acc = None
    for o in outs:
        if cnt and f'1 + {cnt} != 8' in o.conds:
            for k, v in o.state.items():
                if k != cnt and v == f'bit << {cnt} | {k}':
                    acc = k
    return acc, cnt


def rule_pack(rep: Report, repo: Repo) -> None:
    rep.rule('C17.PACK', 'all four write_bit bodies reduce (by forward substitution over every path, private helpers inlined) to the same '
             'transfer function over (accumulator, count): on the paths where count+1 != 8 exactly acc := bit << count | acc and '
             'count := count + 1, nothing else; on the paths where count+1 == 8 both are reset to 0 and the completed byte '
             '`bit << count | acc` is what gets emitted', 4)
    for rel, cls in PACKERS:
        fn = repo.func(rel, f'{cls}.write_bit')
        site = f'{rel}:{fn.lineno} {cls}.write_bit'
        outs = method_outcomes(repo, rel, cls, 'write_bit')
        acc, cnt = _pack_names(outs)
        if acc is None or cnt is None:
            rep.fail('C17.PACK', f'{cls}.write_bit', f'no (accumulator, count) pair with the lsb-first update found on the no-flush path; paths: '
                     f'{[(o.conds, o.state) for o in outs][:2]}', site, expected='acc := bit << count | acc; count := count + 1')
            continue
        full = f'bit << {cnt} | {acc}'
        ok, why = True, []
        n_flush = n_keep = 0
        for o in outs:
            if f'1 + {cnt} != 8' in o.conds:
                n_keep += 1
                good = o.state == {acc: full, cnt: f'1 + {cnt}'} and not o.effects and o.result in (('fall', None), ('return', None), ('return', 'None'))
                ok = ok and good
                if not good:
                    why.append(f'no-flush path: state {o.state} effects {o.effects} result {o.result}')
            elif f'1 + {cnt} == 8' in o.conds:
                n_flush += 1
                emitted = any(full in v for k, v in o.state.items() if k not in (acc, cnt)) or any(full in e for e in o.effects)
                good = o.state.get(acc) == '0' and o.state.get(cnt) == '0' and emitted
                ok = ok and good
                if not good:
                    why.append(f'flush path {o.conds[:3]}: acc={o.state.get(acc)} cnt={o.state.get(cnt)} completed byte emitted={emitted}')
            else:
                ok = False
                why.append(f'a path that does not test count+1 against 8: {o.conds}')
        ok = ok and n_flush >= 1 and n_keep == 1
        rep.check(ok, 'C17.PACK', f'{cls}.write_bit', f'acc={acc} cnt={cnt}: {n_keep} no-flush + {n_flush} flush paths' + (': ' + '; '.join(why[:2]) if why else ''),
                  site, expected='lsb-first accumulate, flush the completed byte at 8, reset')


def _fold(text: Optional[str], env: Dict[str, int]) -> Optional[int]:
    """fold an outcome expression (text over the entry state) for given integer values; `X[0]` of a source reads as the name `_first`."""
    if text is None:
        return None
    try:
        e = ast.parse(text, mode='eval').body
    except SyntaxError:
        return None

    class First(ast.NodeTransformer):
        def visit_Subscript(self, node: ast.Subscript) -> ast.AST:
            if isinstance(node.slice, ast.Constant) and node.slice.value == 0:
                return ast.Name(id='_first', ctx=ast.Load())
            return self.generic_visit(node)
    try:
        return eval_int_expr(ast.fix_missing_locations(First().visit(e)), env)
    except AnalysisError:
        return None


def _unpack_facts(outs: List[Outcome]) -> Dict[str, Any]:
    """the steady-state path of a read_bit: its only condition is `count != 0` for some attribute; the byte register is the other
    attribute that path updates. Found by shape and judged by folding - `& 1` / `% 2`, `>> 1` / `// 2` read alike."""
    f: Dict[str, Any] = dict(cnt=None, byte=None)
    for o in outs:
        if len(o.conds) == 1 and o.result[0] == 'return':
            try:
                c = ast.parse(o.conds[0], mode='eval').body
            except SyntaxError:
                continue
            if isinstance(c, ast.Compare) and len(c.ops) == 1 and isinstance(c.ops[0], (ast.NotEq, ast.Gt, ast.Lt)):
                sides = [c.left, c.comparators[0]]
                attr = [norm(x) for x in sides if isinstance(x, ast.Attribute)]
                zero = [x for x in sides if isinstance(x, ast.Constant) and x.value == 0]
                if len(attr) == 1 and len(zero) == 1:
                    f['cnt'] = attr[0]
                    others = [k for k in o.state if k != attr[0]]
                    f['byte'] = others[0] if len(others) == 1 else None
                    f['steady'] = o
    return f


def rule_unpack(rep: Report, repo: Repo) -> None:
    rep.rule('C17.UNPACK', 'read_bit of the buffering devices reduces (forward substitution, private helpers inlined) to: count != 0 -> '
             'return byte & 1, byte >>= 1, count -= 1; count == 0 and a next byte S[0] exists -> return S[0] & 1, byte := S[0] >> 1, '
             'count := 7 (and a buffered source drops exactly that byte); the keyboard queue helpers enqueue (value >> i) & 1 for ascending i', 4)
    for rel, cls in UNPACKERS:
        fn = repo.func(rel, f'{cls}.read_bit')
        site = f'{rel}:{fn.lineno} {cls}.read_bit'
        outs = method_outcomes(repo, rel, cls, 'read_bit')
        f = _unpack_facts(outs)
        cnt, byte = f.get('cnt'), f.get('byte')
        ok, why = False, f'no steady-state path (count != 0 -> return byte & 1) found among {[o.conds for o in outs]}'
        if cnt and byte:
            st = f['steady']
            # folded on a grid of (byte, count): the bit handed out is the lowest bit, the register loses it, the count drops by one
            grid = [(b, c) for b in (0, 1, 2, 0x5A, 0xA5, 0xFF) for c in (1, 3, 8)]
            s_steady = set(st.state) == {byte, cnt} and not st.effects and all(
                _fold(st.result[1], {byte: b, cnt: c}) == (b & 1) and _fold(st.state[byte], {byte: b, cnt: c}) == b >> 1
                and _fold(st.state[cnt], {byte: b, cnt: c}) == c - 1 for b, c in grid)
            refills = [o for o in outs if f'0 == {cnt}' in o.conds and o.result[0] == 'return']
            s_refill = len(refills) == 1
            src = None
            if s_refill:
                o = refills[0]
                # the source is whatever the result indexes at [0]
                subs = [norm(x.value) for x in ast.walk(ast.parse(o.result[1] or '0', mode='eval')) if isinstance(x, ast.Subscript)
                        and isinstance(x.slice, ast.Constant) and x.slice.value == 0]
                src = subs[0] if len(set(subs)) == 1 else None
                src_read = [e for e in o.effects if src and e.startswith(f'{src} := ')]
                buffered = bool(src) and src.startswith('self.')
                keys_ok = set(o.state) == ({byte, cnt, src} if buffered else {byte, cnt})
                vals_ok = src is not None and keys_ok and all(
                    _fold(o.result[1], {'_first': b}) == (b & 1) and _fold(o.state[byte], {'_first': b}) == b >> 1 and _fold(o.state[cnt], {'_first': b}) == 7
                    for b in (0, 1, 2, 0x5A, 0xA5, 0xFF))
                # a buffered source is advanced by exactly the byte just taken; an unbuffered source is ONE read bound once
                adv_ok = (not buffered) or o.state.get(src) == f'{src}[1:]'
                if buffered:
                    s_refill = bool(vals_ok) and adv_ok and not o.effects
                else:
                    # ONE read bound once; the source is that value or a pure expression of it (`_v1.encode(CODEC)`)
                    bound = [e.split(' := ', 1)[0] for e in o.effects if ' := ' in e]
                    used = set(re.findall(r'\b_v\d+\b', src or ''))
                    s_refill = bool(vals_ok) and len(o.effects) == 1 and len(bound) == 1 and used == set(bound)
            others = [o for o in outs if o is not st and o not in refills]
            s_rest = all(o.result[0] == 'raise' and not o.state and all(' := ' in e for e in o.effects) and len(o.effects) <= 1
                         and f'0 == {cnt}' in o.conds for o in others)
            ok = s_steady and s_refill and s_rest
            why = f'count={cnt} byte={byte} source={src}: steady={s_steady} refill={s_refill} only-other-paths-raise-without-effects={s_rest}'
        rep.check(ok, 'C17.UNPACK', f'{cls}.read_bit', why, site)
    for name, n in (('_queue_input_byte', 8), ('_queue_input_hex', 4)):
        fn = expand_private_calls(repo, KBD, repo.func(KBD, f'KeyboardIO.{name}'), 'KeyboardIO')          # a shared `queue the low n bits` helper reads in place
        # the bits queued, in order, whichever way the sequence is written: an append loop, or extend() of a comprehension /
        # generator; the element is folded on a grid of values and positions
        seqs: List[Tuple[ast.expr, ast.expr, str]] = []
        for x in ast.walk(fn):
            if isinstance(x, ast.For) and isinstance(x.target, ast.Name) and len(x.body) == 1 and isinstance(x.body[0], ast.Expr) \
                    and isinstance(x.body[0].value, ast.Call) and dotted(x.body[0].value.func) == 'self._pending_input_bits.append' \
                    and len(x.body[0].value.args) == 1:
                seqs.append((x.iter, x.body[0].value.args[0], x.target.id))
            if isinstance(x, ast.Call) and dotted(x.func) == 'self._pending_input_bits.extend' and len(x.args) == 1 \
                    and isinstance(x.args[0], (ast.ListComp, ast.GeneratorExp)) and len(x.args[0].generators) == 1 \
                    and not x.args[0].generators[0].ifs and isinstance(x.args[0].generators[0].target, ast.Name):
                g_ = x.args[0].generators[0]
                seqs.append((g_.iter, x.args[0].elt, g_.target.id))
        writes = [c for c in calls(fn) if dotted(c.func).startswith('self._pending_input_bits.')]
        ok = len(seqs) == 1 and len(writes) == 1 and norm(seqs[0][0]) == f'range({n})'
        txt = 'no single queueing sequence'
        if ok:
            it_, elt, var = seqs[0]
            txt = f'{norm(elt)} for {var} in {norm(it_)}'
            try:
                for value in (0, 1, 0x5A, 0xA5, 0xFF, 0x80, 0x0F, 0x137):
                    for i_ in range(n):
                        if int(bool(eval_int_expr(elt, {'value': value, var: i_}))) != (value >> i_) & 1:
                            ok = False
            except AnalysisError:
                ok = False
            ok = ok and all(isinstance(eval_int_expr(elt, {'value': 5, var: 0}), (bool, int)) for _ in (0,))
            # the queue holds booleans (the device contract): the element is a comparison / bool(), not the raw masked integer
            ok = ok and isinstance(elt, (ast.Compare, ast.BoolOp)) or (ok and isinstance(elt, ast.Call) and dotted(elt.func) == 'bool')
        rep.check(ok, 'C17.UNPACK', f'KeyboardIO.{name}', txt[:90], f'{KBD}:{fn.lineno}', expected=f'bit i of value, as a bool, for i in range({n}) (lsb first)')


def rule_eof(rep: Report, repo: Repo) -> None:
    rep.rule('C17.EOF', 'end-of-input is raised exactly in the refill branch when no byte is available; the keyboard never raises it '
             'and polls (queuing at least a nibble) before popping from an empty queue', 4)
    for rel, cls in UNPACKERS:
        fn = repo.func(rel, f'{cls}.read_bit')
        outs = method_outcomes(repo, rel, cls, 'read_bit')
        f = _unpack_facts(outs)
        cnt = f.get('cnt')
        refills = [o for o in outs if cnt and f'0 == {cnt}' in o.conds and o.result[0] == 'return']
        raising = [o for o in outs if o.result[0] == 'raise']
        ok = False
        why = 'no refill path'
        if cnt and len(refills) == 1 and len(raising) == 1:
            subs = [norm(x.value) for x in ast.walk(ast.parse(refills[0].result[1] or '0', mode='eval')) if isinstance(x, ast.Subscript)
                    and isinstance(x.slice, ast.Constant) and x.slice.value == 0]
            src = subs[0] if len(set(subs)) == 1 else '?'             # the source is whatever the refill result indexes at [0]
            empty = {f'not {src}', f'0 == len({src})', f'len({src}) < 1', f'len({src}) <= 0'}
            r = raising[0]
            extra = [c for c in r.conds if c != f'0 == {cnt}']
            ok = r.result == ('raise', 'IOReadOnEOF') and f'0 == {cnt}' in r.conds and len(extra) == 1 and extra[0] in empty
            why = f'raises {r.result[1]} under {r.conds}; source {src}'
        rep.check(ok, 'C17.EOF', cls, why, f'{rel}:{fn.lineno}', expected='IOReadOnEOF exactly when the count is 0 and the source has no byte')
    raises = []
    for st in repo.cls(KBD, 'KeyboardIO').body + repo.cls(KBD, 'ScriptedKeyEventSource').body:
        if isinstance(st, ast.FunctionDef) and st.name in ('read_bit', '_poll', '_queue_input_byte', '_queue_input_hex', 'next_due_event'):
            raises += [raised_class(r) for r in ast.walk(st) if isinstance(r, ast.Raise)]
    rep.check(not raises, 'C17.EOF', 'KeyboardIO:never-EOF', f'raises in the read closure: {raises}', KBD)
    rb = repo.func(KBD, 'KeyboardIO.read_bit')
    ok = len(rb.body) == 2 and isinstance(rb.body[0], ast.If) and norm(rb.body[0].test) == 'not self._pending_input_bits' \
        and norm(rb.body[0].body[0]) == 'self._poll()' and norm(rb.body[1]) in ('return self._pending_input_bits.popleft()', 'return self._pending_input_bits.pop(0)')       # the head of the fifo (producers append at the end: UNPACK)
    rep.check(ok, 'C17.EOF', 'KeyboardIO.read_bit:poll-before-pop', ' ; '.join(norm(s).replace('\n', ' ') for s in rb.body)[:100], f'{KBD}:{rb.lineno}')


def rule_incomplete(rep: Report, repo: Repo) -> None:
    rep.rule('C17.INCOMPLETE', 'get_output raises IncompleteOutput iff a partial byte is pending and incomplete output is not allowed', 3)
    for rel, cls in PACKERS[:3]:
        go = repo.func(rel, f'{cls}.get_output')
        wouts = method_outcomes(repo, rel, cls, 'write_bit')
        _acc, cnt = _pack_names(wouts)
        # the collected-output attribute: the one the flush path of write_bit extends with the completed byte (whatever it is called)
        sinks = sorted({k for o in wouts if cnt and f'1 + {cnt} == 8' in o.conds for k, v in o.state.items()
                        if k not in (_acc, cnt) and _acc and f'bit << {cnt} | {_acc}' in v})
        sink = sinks[0] if len(sinks) == 1 else 'self._output'
        outs = method_outcomes(repo, rel, cls, 'get_output')
        raising = [o for o in outs if o.result[0] == 'raise']
        returning = [o for o in outs if o.result[0] == 'return']
        ok = (cnt is not None and len(raising) == 1 and raising[0].result == ('raise', 'IncompleteOutput')
              and sorted(raising[0].conds) == sorted([f'0 != {cnt}', 'not allow_incomplete_output']) and not raising[0].state
              and bool(returning) and all(o.result in (('return', sink), ('return', f'bytes({sink})')) and not o.state and not o.effects for o in returning)      # a bytearray buffer is handed out as an immutable copy
              and len(outs) == len(raising) + len(returning))
        rep.check(ok, 'C17.INCOMPLETE', f'{cls}.get_output', f'{[(o.conds, o.result) for o in outs]}', f'{rel}:{go.lineno}',
                  expected=f'raise IncompleteOutput iff {cnt} != 0 and not allow_incomplete_output; else return {sink}')


def rule_kbd(rep: Report, repo: Repo) -> None:
    rep.rule('C17.KBD', 'every path through KeyboardIO._poll asks the source once for the current tic, advances the tic once, queues '
             'exactly one status nibble and the keycode byte iff an event was returned; the status constants are the documented '
             'ones; the scripted source is stably sorted by tic and delivers when event.tic <= tic', 5)
    fn = repo.func(KBD, 'KeyboardIO._poll')
    g = build_py_cfg(fn)
    # enumerate paths (acyclic)
    paths: List[List[int]] = []

    def dfs(n: int, acc: List[int]) -> None:
        if len(acc) > 60:
            raise AnalysisError('_poll: path too long (loop?)')
        if n == g.exit:
            paths.append(acc)
            return
        for m, lab in g.succ[n]:
            if lab in ('exc', 'raise'):
                continue
            dfs(m, acc + [m])
    dfs(g.entry, [g.entry])
    site = f'{KBD}:{fn.lineno} KeyboardIO._poll'
    ok_all = bool(paths)
    detail = []
    for p in paths:
        evs = []
        none_branch = None
        for nid in p:
            a = g.nodes[nid].ast
            if a is None or not isinstance(a, ast.AST):
                continue
            if g.nodes[nid].kind == 'cond' and norm(a) == 'event is None':
                nxt = p[p.index(nid) + 1]
                lab = [l for m, l in g.succ[nid] if m == nxt][0]
                none_branch = (lab == 'T')
            for c in [x for x in ast.walk(a) if isinstance(x, ast.Call)]:
                d = dotted(c.func)
                if d == 'self.event_source.next_due_event':
                    evs.append('ask:' + norm(c.args[0]))
                elif d == 'self._queue_input_hex':
                    evs.append('hex:' + norm(c.args[0]))
                elif d == 'self._queue_input_byte':
                    evs.append('byte:' + norm(c.args[0]))
            if isinstance(a, ast.AugAssign) and norm(a.target) == 'self.tic':
                evs.append('tic+=' + norm(a.value))
        if none_branch is None:
            ok_all = False
        elif none_branch:
            ok = evs == ['ask:self.tic', 'tic+=1', 'hex:self.NO_KEY_STATUS']
        else:
            ok = evs == ['ask:self.tic', 'tic+=1', 'hex:self.KEY_DOWN_STATUS if is_down else self.KEY_UP_STATUS', 'byte:keycode']
        if none_branch is not None and not ok:
            ok_all = False
        detail.append(evs)
    rep.check(ok_all and len(paths) == 2, 'C17.KBD', '_poll:paths', f'{len(paths)} paths: {detail}', site,
              expected='no event: ask, tic+1, status 0; event: ask, tic+1, status 9/8, keycode byte')
    consts = {t.id: norm(st.value) for st in repo.cls(KBD, 'KeyboardIO').body if isinstance(st, ast.Assign) for t in st.targets if isinstance(t, ast.Name)}
    rep.check(consts.get('NO_KEY_STATUS') == '0' and consts.get('KEY_UP_STATUS') == '8' and consts.get('KEY_DOWN_STATUS') == '9', 'C17.KBD',
              'status constants', str(consts), KBD, expected='0x0 / 0x8 / 0x9 as documented in the module docstring')
    doc = ast.get_docstring(repo.mod(KBD)) or ''
    rep.check('0x0 = no event' in doc and '0x8 = a key was released' in doc and '0x9 = a key was pressed' in doc, 'C17.KBD', 'docstring',
              'the documented status values are 0x0/0x8/0x9', KBD)
    _rule_scripted_source(rep, repo)


def _by_tic_key(k: Optional[ast.expr]) -> bool:
    """key=lambda e: e.tic  /  key=attrgetter('tic')"""
    if isinstance(k, ast.Lambda) and len(k.args.args) == 1 and isinstance(k.body, ast.Attribute) and k.body.attr == 'tic' \
            and isinstance(k.body.value, ast.Name) and k.body.value.id == k.args.args[0].arg:
        return True
    return isinstance(k, ast.Call) and dotted(k.func).split('.')[-1] == 'attrgetter' and len(k.args) == 1 \
        and isinstance(k.args[0], ast.Constant) and k.args[0].value == 'tic'


def _rule_scripted_source(rep: Report, repo: Repo) -> None:
    """The scripted source replays its events in tic order (stable for equal tics) and hands one out exactly when its tic has been
    reached. Read as: (1) the container next_due_event consumes holds sorted(<the events given>, key=tic) - directly, or through copies
    (list / deque / tuple / slice) of an attribute that does; (2) the hand-out is guarded by `<container not exhausted>` and
    `<head>.tic <= tic`; (3) the head handed out is the one tested, and it is consumed (index advanced / popped from the left) on that
    path only; the other path returns None. The container may be the sorted list with an index that starts at 0, or a queue."""
    init = repo.func(KBD, 'ScriptedKeyEventSource.__init__')
    nd = repo.func(KBD, 'ScriptedKeyEventSource.next_due_event')
    site_i, site_n = f'{KBD}:{init.lineno} ScriptedKeyEventSource.__init__', f'{KBD}:{nd.lineno} ScriptedKeyEventSource.next_due_event'
    params = [a.arg for a in init.args.args][1:] + [a.arg for a in init.args.kwonlyargs]
    # (1) abstract values of the attributes / locals set by __init__, in statement order
    val: Dict[str, str] = {p_: 'RAW' for p_ in params}

    def absval(e: ast.expr) -> str:
        if isinstance(e, ast.Constant) and e.value == 0 and not isinstance(e.value, bool):
            return 'ZERO'
        if isinstance(e, (ast.Name, ast.Attribute)):
            return val.get(norm(e), '?')
        if isinstance(e, ast.Subscript) and isinstance(e.slice, ast.Slice) and e.slice.lower is None and e.slice.upper is None and e.slice.step is None:
            return absval(e.value)
        if isinstance(e, ast.Call):
            fn_ = dotted(e.func)
            if fn_ == 'sorted' and len(e.args) == 1:
                kws = {k.arg: k.value for k in e.keywords}
                rev = kws.get('reverse')
                if set(kws) <= {'key', 'reverse'} and _by_tic_key(kws.get('key')) and (rev is None or (isinstance(rev, ast.Constant) and not rev.value)) \
                        and absval(e.args[0]) in ('RAW', 'SORTED'):
                    return 'SORTED'
                return '?'
            if fn_.split('.')[-1] in ('list', 'tuple', 'deque') and len(e.args) == 1 and not e.keywords:
                return absval(e.args[0])
            if isinstance(e.func, ast.Attribute) and e.func.attr == 'copy' and not e.args:
                return absval(e.func.value)
        return '?'
    straight = True
    for st in init.body:
        if isinstance(st, (ast.Assign, ast.AnnAssign)) and st.value is not None:
            tg = st.targets if isinstance(st, ast.Assign) else [st.target]
            v = absval(st.value)
            for t in tg:
                val[norm(t)] = v
        elif isinstance(st, ast.Expr) and isinstance(st.value, ast.Call) and isinstance(st.value.func, ast.Attribute) and st.value.func.attr == 'sort':
            kws = {k.arg: k.value for k in st.value.keywords}
            tgt = norm(st.value.func.value)
            if tgt in params:
                straight = False                # sorts the caller's list in place
            val[tgt] = 'SORTED' if set(kws) == {'key'} and _by_tic_key(kws['key']) and val.get(tgt) in ('RAW', 'SORTED') and tgt not in params else '?'
        elif isinstance(st, ast.Expr) and isinstance(st.value, ast.Constant):
            continue
        elif isinstance(st, ast.Pass):
            continue
        else:
            straight = False
    # (2) / (3) the hand-out path of next_due_event
    ifs = [n for n in nd.body if isinstance(n, ast.If)]
    tail = [n for n in nd.body if not isinstance(n, ast.If) and not (isinstance(n, ast.Expr) and isinstance(n.value, ast.Constant))]
    if len(ifs) != 1 or ifs[0].orelse and not (len(ifs[0].orelse) == 1 and isinstance(ifs[0].orelse[0], ast.Return)):
        raise AnalysisError(f'C17.KBD: next_due_event is not one guarded hand-out followed by the no-event return ({KBD}:{nd.lineno})')
    other = (ifs[0].orelse or tail)
    none_ok = len(other) == 1 and isinstance(other[0], ast.Return) and (other[0].value is None or (isinstance(other[0].value, ast.Constant) and other[0].value.value is None))
    conj: List[ast.expr] = []

    def flat(e: ast.expr) -> None:
        if isinstance(e, ast.BoolOp) and isinstance(e.op, ast.And):
            for x in e.values:
                flat(x)
        else:
            conj.append(e)
    flat(ifs[0].test)
    body = list(ifs[0].body)
    while len(body) == 1 and isinstance(body[0], ast.If) and not body[0].orelse:        # nested guards read as a conjunction
        flat(body[0].test)
        body = list(body[0].body)
    tic_param = nd.args.args[1].arg if len(nd.args.args) > 1 else 'tic'
    # the returned pair and the event it is taken from
    ret = next((s_ for s_ in body if isinstance(s_, ast.Return)), None)
    local: Dict[str, ast.expr] = {}
    consumed: List[str] = []
    for s_ in body:
        if isinstance(s_, ast.Assign) and len(s_.targets) == 1 and isinstance(s_.targets[0], ast.Name):
            local[s_.targets[0].id] = s_.value
        elif isinstance(s_, ast.AugAssign) and isinstance(s_.op, ast.Add) and isinstance(s_.value, ast.Constant) and s_.value.value == 1:
            consumed.append('advance:' + norm(s_.target))
        elif isinstance(s_, ast.Assign) and len(s_.targets) == 1 and isinstance(s_.value, ast.BinOp) and isinstance(s_.value.op, ast.Add) \
                and {norm(s_.value.left), norm(s_.value.right)} == {norm(s_.targets[0]), '1'}:
            consumed.append('advance:' + norm(s_.targets[0]))
        elif isinstance(s_, ast.Delete) and len(s_.targets) == 1 and isinstance(s_.targets[0], ast.Subscript) and norm(s_.targets[0].slice) == '0':
            consumed.append('pop:' + norm(s_.targets[0].value))
        elif isinstance(s_, ast.Expr) and isinstance(s_.value, ast.Call):
            local['_'] = s_.value
    if ret is None or not isinstance(ret.value, ast.Tuple) or len(ret.value.elts) != 2:
        raise AnalysisError(f'C17.KBD: the hand-out path of next_due_event does not return a pair ({KBD}:{nd.lineno})')
    fields = [(e.attr, e.value) for e in ret.value.elts if isinstance(e, ast.Attribute)]
    same_event = len(fields) == 2 and norm(fields[0][1]) == norm(fields[1][1])
    src = fields[0][1] if fields else None
    if isinstance(src, ast.Name) and src.id in local:
        src = local[src.id]

    def pop_of(e: Optional[ast.expr]) -> Optional[str]:
        """the container when e takes its first element out: q.popleft() / q.pop(0)"""
        if isinstance(e, ast.Call) and isinstance(e.func, ast.Attribute) and not e.keywords:
            if e.func.attr == 'popleft' and not e.args:
                return norm(e.func.value)
            if e.func.attr == 'pop' and len(e.args) == 1 and norm(e.args[0]) == '0':
                return norm(e.func.value)
        return None
    for v_ in list(local.values()):
        if pop_of(v_):
            consumed.append('pop:' + str(pop_of(v_)))
    cont = idx = None
    if pop_of(src):
        cont, idx = pop_of(src), '0'
    elif isinstance(src, ast.Subscript):
        cont, idx = norm(src.value), norm(src.slice)
    head = f'{cont}[{idx}]'
    queue = idx == '0'
    # the guards, each classified
    kinds: List[str] = []
    for c in conj:
        t = norm(c)
        if queue and (t == cont or t in (f'len({cont}) > 0', f'len({cont}) != 0', f'len({cont}) >= 1', f'0 < len({cont})', f'1 <= len({cont})')):
            kinds.append('nonempty')
        elif not queue and t in (f'{idx} < len({cont})', f'len({cont}) > {idx}', f'{idx} != len({cont})'):
            kinds.append('nonempty')
        elif t in (f'{head}.tic <= {tic_param}', f'{tic_param} >= {head}.tic', f'not {head}.tic > {tic_param}', f'not {tic_param} < {head}.tic'):
            kinds.append('due')
        else:
            kinds.append('other:' + t)
    want_consumed = f'pop:{cont}' if queue else f'advance:{idx}'
    start_ok = val.get(str(cont)) == 'SORTED' and (queue or val.get(str(idx)) == 'ZERO')
    rep.check(straight and start_ok, 'C17.KBD', 'scripted:stable-sort-by-tic',
              f'next_due_event consumes {cont} (position {idx}); after __init__: ' + ', '.join(f'{k}={v}' for k, v in sorted(val.items()) if k.startswith('self.')),
              site_i, expected='the consumed container holds sorted(events, key=tic) (a stable sort) and the read position starts at its first element')
    rep.check(same_event and kinds[:1] == ['nonempty'] and sorted(kinds) == ['due', 'nonempty'] and consumed == [want_consumed] and none_ok, 'C17.KBD', 'scripted:due-test',
              f'guards {kinds}; hands out {head if cont else norm(ret.value)}; consumption {consumed}; other path returns None: {none_ok}', site_n,
              expected='exactly when the container is not exhausted and head.tic <= tic: hand out the head and consume it once; else None')

BYTE_CODECS = {'raw_unicode_escape', 'latin-1', 'latin1', 'latin_1', 'iso-8859-1', 'iso8859-1', 'l1'}      # code point n <-> byte n for n < 256


def _one_byte_of(e: ast.expr, repo: Repo, rel: str) -> Optional[str]:
    """the integer expression X when e builds the ONE byte of value X: X.to_bytes(1, ..), bytes([X]) / bytes((X,)),
    chr(X).encode(<the byte codec constant>); else None."""
    if isinstance(e, ast.Call) and isinstance(e.func, ast.Attribute) and e.func.attr == 'to_bytes' and e.args \
            and isinstance(e.args[0], ast.Constant) and e.args[0].value == 1:
        return norm(e.func.value)
    if isinstance(e, ast.Call) and dotted(e.func) == 'bytes' and len(e.args) == 1 and isinstance(e.args[0], (ast.List, ast.Tuple)) \
            and len(e.args[0].elts) == 1:
        return norm(e.args[0].elts[0])
    if isinstance(e, ast.Call) and isinstance(e.func, ast.Attribute) and e.func.attr == 'encode' and _codec_ok(e, repo, rel) \
            and isinstance(e.func.value, ast.Call) and dotted(e.func.value.func) == 'chr' and len(e.func.value.args) == 1:
        return norm(e.func.value.args[0])
    return None


def _codec_ok(c: ast.Call, repo: Repo, rel: str) -> bool:
    arg = c.args[0] if c.args else next((k.value for k in c.keywords if k.arg == 'encoding'), None)
    if arg is None:
        return False                              # the default codec is utf-8: code points >= 0x80 become two bytes
    if isinstance(arg, ast.Constant):
        return str(arg.value).lower() in BYTE_CODECS
    return isinstance(arg, ast.Name) and arg.id == 'IO_BYTES_ENCODING'


_MUT_METHODS = {'append', 'appendleft', 'extend', 'extendleft', 'insert', 'pop', 'popleft', 'clear', 'remove', 'update', 'add', 'discard', 'sort', 'reverse', 'setdefault'}


def rule_instance_state(rep: Report, repo: Repo) -> None:
    """a device's queue / buffer belongs to ONE device: a container bound at class level is one object for every instance - what a first device
    left in it (half a keycode, an unflushed byte) is served to the next one"""
    rep.rule('C17.INSTANCE-STATE', 'no io-device class binds a mutable container (list / dict / set / deque / bytearray, literal or constructor call) at '
             'class level and then changes it in place through `self` in a method: every queue and buffer is created per instance', 4)
    n = 0
    for rel in sorted({r for r, _ in PACKERS} | {D + 'KeyboardIO.py', D + 'BrokenIO.py', D + 'IODevice.py', D + 'ScreenIO.py'}):
        if not repo.exists(rel):
            continue
        for cls in [c for c in repo.mod(rel).body if isinstance(c, ast.ClassDef)]:
            n += 1
            shared = {}
            for st in cls.body:
                tgts = st.targets if isinstance(st, ast.Assign) else [st.target] if isinstance(st, ast.AnnAssign) and st.value is not None else []
                val = getattr(st, 'value', None)
                if isinstance(val, (ast.List, ast.Dict, ast.Set, ast.ListComp, ast.DictComp, ast.SetComp)) or (
                        isinstance(val, ast.Call) and dotted(val.func).split('.')[-1] in ('list', 'dict', 'set', 'deque', 'bytearray', 'defaultdict', 'OrderedDict')):
                    for t in tgts:
                        if isinstance(t, ast.Name):
                            shared[t.id] = st
            bad = []
            for name_, st in shared.items():
                rebound_in_init = any(isinstance(a, (ast.Assign, ast.AnnAssign)) and any(norm(t) == f'self.{name_}' for t in (a.targets if isinstance(a, ast.Assign) else [a.target]))
                                      for m in cls.body if isinstance(m, ast.FunctionDef) and m.name == '__init__' for a in ast.walk(m))
                if rebound_in_init:
                    continue
                for m in [m for m in cls.body if isinstance(m, ast.FunctionDef)]:
                    for x in ast.walk(m):
                        if isinstance(x, ast.Call) and isinstance(x.func, ast.Attribute) and x.func.attr in _MUT_METHODS and norm(x.func.value) == f'self.{name_}':
                            bad.append(f'{name_} (bound at class level, line {st.lineno}) is changed by self.{name_}.{x.func.attr}(..) in {m.name}')
                        elif isinstance(x, (ast.Assign, ast.AugAssign)) and any(isinstance(t, ast.Subscript) and norm(t.value) == f'self.{name_}'
                                                                               for t in (x.targets if isinstance(x, ast.Assign) else [x.target])):
                            bad.append(f'{name_} (bound at class level, line {st.lineno}) gets an element stored through self in {m.name}')
                        elif isinstance(x, ast.AugAssign) and norm(x.target) == f'self.{name_}':
                            bad.append(f'{name_} (bound at class level, line {st.lineno}) is extended in place (`+=`) through self in {m.name}')
            rep.check(not bad, 'C17.INSTANCE-STATE', f'{rel.split("/")[-1]}:{cls.name}', bad[0] + ': one object shared by every device of the class' if bad else
                      f'class-level containers: {sorted(shared) or "none"}; none is changed in place through self', f'{rel}:{cls.lineno} {cls.name}',
                      expected='queues and buffers created in __init__')
    if n < 4:
        raise AnalysisError(f'C17.INSTANCE-STATE: {n} io-device classes found (at least 4 confirmed by hand)')


def rule_codec(rep: Report, repo: Repo) -> None:
    rep.rule('C17.CODEC', 'bytes cross the str boundary only through the byte-transparent codec: IO_BYTES_ENCODING maps code point n to '
             'byte n for every n < 256, every .encode / .decode of the io devices (and of the quickstart comparison of device output) '
             'names it, and the completed byte of every write_bit joins the retrievable output as exactly one byte of that value', 6)
    CONSTS = 'flipjump/utils/constants.py'
    val = repo.const(CONSTS, 'IO_BYTES_ENCODING')
    rep.check(isinstance(val, str) and val.lower() in BYTE_CODECS, 'C17.CODEC', 'IO_BYTES_ENCODING', f'{val!r}', CONSTS,
              expected=f'one of {sorted(BYTE_CODECS)}')
    rels = sorted({r for r, _ in PACKERS} | {D + 'BrokenIO.py', D + 'IODevice.py', 'flipjump/flipjump_quickstart.py', 'flipjump/interpreter/fjm_run.py'})
    for rel in rels:
        if not repo.exists(rel):
            continue
        for c in ast.walk(repo.mod(rel)):
            if isinstance(c, ast.Call) and isinstance(c.func, ast.Attribute) and c.func.attr in ('encode', 'decode') \
                    and not (isinstance(c.func.value, ast.Name) and c.func.value.id in ('base64', 'json', 'zlib')):
                rep.check(_codec_ok(c, repo, rel), 'C17.CODEC', f'{rel.split("/")[-1]}:{norm(c)[:60]}', f'codec argument of `{norm(c)[:80]}`',
                          f'{rel}:{c.lineno}', expected='IO_BYTES_ENCODING (a missing argument means utf-8)')
    # input side: a byte read through the TEXT layer of stdin was decoded with the locale's codec first (utf-8: the two bytes c3 a9 arrive
    # as the one character U+00E9; a lone byte >= 0x80 arrives as a surrogate escape or raises) - re-encoding one character with the
    # byte-transparent codec cannot bring the bytes back. Exact input needs the binary layer (stdin.buffer) or a stream opened with the codec.
    for rel in rels:
        if not repo.exists(rel):
            continue
        for c in ast.walk(repo.mod(rel)):
            if isinstance(c, ast.Call) and dotted(c.func) in ('stdin.read', 'sys.stdin.read', 'stdin.readline', 'sys.stdin.readline', 'input'):
                rep.fail('C17.CODEC', f'{rel.split("/")[-1]}:{norm(c)[:40]} (text layer)', f'`{norm(c)}` reads CHARACTERS the locale codec decoded from the input '
                         f'bytes; what is re-encoded is not the byte string that was typed / piped for any byte >= 0x80', f'{rel}:{c.lineno}',
                         expected='stdin.buffer.read(1) (bytes), or a text stream opened with IO_BYTES_ENCODING')
    for rel, cls in PACKERS:
        fn = repo.func(rel, f'{cls}.write_bit')
        outs = method_outcomes(repo, rel, cls, 'write_bit')
        acc, cnt = _pack_names(outs)
        if acc is None or cnt is None:
            continue                                   # C17.PACK reports it
        full = f'bit << {cnt} | {acc}'
        bufs = {k for o in outs for k, v in o.state.items() if k not in (acc, cnt) and full in v}
        for buf in sorted(bufs):
            bad = []
            for o in outs:
                v = o.state.get(buf)
                if v is None:
                    continue
                e = ast.parse(v, mode='eval').body
                one = _one_byte_of(e.right, repo, rel) if isinstance(e, ast.BinOp) and isinstance(e.op, ast.Add) and norm(e.left) == buf else None
                if one is None and isinstance(e, ast.BinOp) and isinstance(e.op, ast.Add) and norm(e.left) == buf \
                        and isinstance(e.right, (ast.List, ast.Tuple)) and len(e.right.elts) == 1:
                    one = norm(e.right.elts[0])            # a list / bytearray buffer of byte values
                if one is None or norm(ast.parse(one, mode='eval').body) != norm(ast.parse(full, mode='eval').body):
                    bad.append(v)
            rep.check(not bad, 'C17.CODEC', f'{cls}.write_bit:{buf}', f'{buf} grows by {bad[0] if bad else "one byte holding the completed value"}',
                      f'{rel}:{fn.lineno} {cls}.write_bit', expected=f'{buf} + <one byte of value {full}>')


def check(rep: Report, repo: Optional[Repo] = None) -> None:
    repo = repo or Repo()
    rep.units = dict(devices=[c for _, c in PACKERS], files=sorted({r for r, _ in PACKERS}))
    rule_pack(rep, repo)
    rule_unpack(rep, repo)
    rule_eof(rep, repo)
    rule_incomplete(rep, repo)
    rule_kbd(rep, repo)
    rule_codec(rep, repo)
    rule_instance_state(rep, repo)


MANIFEST = dict(
    technique='reduction of each device method to a canonical transfer function; path enumeration of _poll',
    level_text='Static: the four bit packers and two unpackers each reduce (statement by statement) to the canonical lsb-first '
               'transfer function, EOF/IncompleteOutput are raised under exactly the documented conditions, and every CFG path of '
               'the keyboard poll performs the protocol events in order. Because the methods are straight-line state machines '
               'this decides the byte-exactness clauses structurally for all bit sequences.',
    level_note='Trusted: CPython ast; the canonical forms in rules/c17.py (accepted spellings: `8 == n` / `n == 8`, `0 == n` / `n == 0`).',
    design_ref='DESIGN.md section 4 C17',
)
