"""C02 - the assembled image equals the denotation of the macro-free source (address-bookkeeping clauses)."""
from __future__ import annotations

import ast
from typing import Any, Dict, List, Optional, Set, Tuple

from .. import linexpr as lx
from ..core import AnalysisError, Report
from ..linexpr import Env, py_ir, to_lin
from ..pycfg import build_py_cfg, run_typestate
from ..pysubst import method_outcomes
from ..pyfacts import Repo, resolve_names, expand_private_calls, canonical_fn, calls_in_order, cc, cn, inline_module_constants, inline_pure_temps, clone, eval_int_expr, calls, dotted, norm, raise_guards, raised_class, walk_no_nested

ASM = 'flipjump/assembler/assembler.py'
PRE = 'flipjump/assembler/preprocessor.py'
OPS = 'flipjump/assembler/inner_classes/ops.py'


def _union_members(repo: Repo, name: str) -> Set[str]:
    v = repo.module_assigns(OPS).get(name)
    if not (isinstance(v, ast.Subscript) and dotted(v.value) == 'Union'):
        raise AnalysisError(f'{name} is not a Union[...] in ops.py')
    elts = v.slice.elts if isinstance(v.slice, ast.Tuple) else [v.slice]
    return {norm(e) for e in elts}


def _isinstance_chain_raw(fn: ast.FunctionDef, var: str) -> Tuple[List[Tuple[Set[str], List[ast.stmt]]], Optional[List[ast.stmt]]]:
    """branches of the isinstance dispatch on `var` inside the function's main loop, in either spelling:
    `if isinstance(var, X): .. elif .. else: ..`, or a run of `if isinstance(var, X): ..; continue` statements whose tail is the
    default branch. -> ([(types, body)], default body or None)"""
    def is_test(t: ast.expr) -> bool:
        return f'isinstance({var},' in norm(t)

    def types_of(t: ast.expr) -> Set[str]:
        out: Set[str] = set()
        for c in ast.walk(t):
            if isinstance(c, ast.Call) and dotted(c.func) == 'isinstance' and len(c.args) == 2:
                ty = c.args[1]
                out |= {norm(e) for e in ty.elts} if isinstance(ty, ast.Tuple) else {norm(ty)}
        return out

    loops = [n for n in ast.walk(fn) if isinstance(n, ast.For)]
    for lp in loops:
        body = list(lp.body)
        for k, st in enumerate(body):
            if not (isinstance(st, ast.If) and is_test(st.test)):
                continue
            out: List[Tuple[Set[str], List[ast.stmt]]] = []
            cur: Any = st
            while True:
                out.append((types_of(cur.test), cur.body))
                if len(cur.orelse) == 1 and isinstance(cur.orelse[0], ast.If) and is_test(cur.orelse[0].test):
                    cur = cur.orelse[0]
                    continue
                break
            if cur.orelse:
                return out, cur.orelse
            # no else: a run of sibling `if isinstance(..): ...; continue` statements, then the default tail
            tail = body[k + 1:]
            ended = lambda b: bool(b) and isinstance(b[-1], (ast.Continue, ast.Return, ast.Raise))
            if ended(out[-1][1]):
                out[-1] = (out[-1][0], [x for x in out[-1][1] if not isinstance(x, ast.Continue)])
                j = 0
                while j < len(tail) and isinstance(tail[j], ast.If) and is_test(tail[j].test) and not tail[j].orelse and ended(tail[j].body):
                    out.append((types_of(tail[j].test), [x for x in tail[j].body if not isinstance(x, ast.Continue)]))
                    j += 1
                return out, tail[j:] or None
            return out, None
    raise AnalysisError(f'{fn.name}: isinstance dispatch chain not found')


def _isinstance_chain(fn: ast.FunctionDef, var: str) -> Tuple[List[Tuple[Set[str], List[ast.stmt]]], Optional[List[ast.stmt]]]:
    """the dispatch chain with nested dispatch resolved: a branch taken for several classes that tests `isinstance(var, X)` again
    inside (a merged `if isinstance(op, (A, B)): try: if isinstance(op, A): .. else: ..`) is split per class - the inner tests
    are folded for each class and the dead arms pruned; classes whose folded bodies read the same stay together."""
    from ..pyfacts import clone, relink
    chain, els = _isinstance_chain_raw(fn, var)

    def types_of(t: ast.expr) -> Set[str]:
        ty = t.args[1]          # type: ignore[attr-defined]
        return {norm(e) for e in ty.elts} if isinstance(ty, ast.Tuple) else {norm(ty)}

    def folded(stmts: List[ast.stmt], cls_name: str) -> List[ast.stmt]:
        class F(ast.NodeTransformer):
            def visit_Call(self, node: ast.Call) -> ast.AST:
                self.generic_visit(node)
                if dotted(node.func) == 'isinstance' and len(node.args) == 2 and norm(node.args[0]) == var:
                    return ast.copy_location(ast.Constant(value=cls_name in types_of(node)), node)
                return node

            def visit_UnaryOp(self, node: ast.UnaryOp) -> ast.AST:
                self.generic_visit(node)
                if isinstance(node.op, ast.Not) and isinstance(node.operand, ast.Constant) and isinstance(node.operand.value, bool):
                    return ast.copy_location(ast.Constant(value=not node.operand.value), node)
                return node

        def prune(ss: List[ast.stmt]) -> List[ast.stmt]:
            out_: List[ast.stmt] = []
            for st in ss:
                for fld in ('body', 'orelse', 'finalbody'):
                    sub = getattr(st, fld, None)
                    if isinstance(sub, list) and sub and isinstance(sub[0], ast.stmt):
                        setattr(st, fld, prune(sub))
                if isinstance(st, ast.Try):
                    for hd in st.handlers:
                        hd.body = prune(hd.body)
                if isinstance(st, ast.If) and isinstance(st.test, ast.Constant) and isinstance(st.test.value, bool):
                    out_.extend(st.body if st.test.value else st.orelse)
                    continue
                out_.append(st)
            return out_
        mod = ast.Module(body=prune([F().visit(clone(st)) for st in stmts]), type_ignores=[])
        relink(ast.fix_missing_locations(mod))
        return mod.body
    out: List[Tuple[Set[str], List[ast.stmt]]] = []
    for types, body in chain:
        nested = any(isinstance(c, ast.Call) and dotted(c.func) == 'isinstance' and len(c.args) == 2 and norm(c.args[0]) == var
                     for st in body for c in ast.walk(st))
        if len(types) < 2 or not nested:
            out.append((types, body))
            continue
        groups: List[Tuple[Set[str], List[ast.stmt], str]] = []
        for t in sorted(types):
            fb = folded(body, t)
            key = '\n'.join(norm(x) for x in fb)
            for g in groups:
                if g[2] == key:
                    g[0].add(t)
                    break
            else:
                groups.append(({t}, fb, key))
        out.extend((g[0], g[1]) for g in groups)
    return out, els


def rule_dispatch(rep: Report, repo: Repo) -> None:
    rep.rule('C02.DISPATCH', 'the op-kind dispatch of the preprocessor and of the label resolver cover exactly the members of the '
             'Op / LastPhaseOp unions and end in a branch that raises a library error', 2)
    for rel, q, var, union in ((PRE, 'resolve_macro_aux', 'op', 'Op'), (ASM, 'labels_resolve', 'op', 'LastPhaseOp')):
        fn = repo.func(rel, q)
        chain, els = _isinstance_chain(fn, var)
        handled = set().union(*[t for t, _ in chain])
        members = _union_members(repo, union)
        raises = els is not None and any(isinstance(n, ast.Raise) or (isinstance(n, ast.Call) and dotted(n.func) == 'macro_resolve_error')
                                         for s in els for n in ast.walk(s))
        rep.check(handled == members and raises, 'C02.DISPATCH', q, f'handles {sorted(handled)}; union {sorted(members)}; else raises={raises}',
                  f'{rel}:{fn.lineno}', expected='handled kinds == union members, final else raises')


def _self_updates(fn: ast.FunctionDef, attr: str) -> List[Tuple[str, str]]:
    """('+=', expr) / ('=', expr) for updates of self.<attr> (or <obj>.<attr>) in fn."""
    out = []
    for n in walk_no_nested(fn):
        if isinstance(n, ast.AugAssign) and isinstance(n.target, ast.Attribute) and n.target.attr == attr and isinstance(n.op, ast.Add):
            out.append(('+=', n.value))
        elif isinstance(n, ast.Assign) and isinstance(n.targets[0], ast.Attribute) and n.targets[0].attr == attr:
            v, t = n.value, norm(n.targets[0])
            if isinstance(v, ast.BinOp) and isinstance(v.op, ast.Add) and norm(v.left) == t:
                out.append(('+=', v.right))            # `x = x + y` is `x += y`
            elif isinstance(v, ast.BinOp) and isinstance(v.op, ast.Add) and norm(v.right) == t:
                out.append(('+=', v.left))
            else:
                out.append(('=', v))
    return out       # type: ignore[return-value]


def _advances(fn: ast.FunctionDef, attr: str, env_extra: Optional[Dict[str, int]] = None) -> List[Optional[Dict[int, int]]]:
    """for every `+=`-like update of <obj>.<attr> in fn (named temporaries substituted): the added amount folded for w in
    (8, 16, 64) -> {w: amount}, or None when it does not fold. `x += 2 * w`, `x = (w << 1) + x`, `op_size = w * 2; x += op_size`
    all give {8: 16, 16: 32, 64: 128}."""
    out: List[Optional[Dict[int, int]]] = []
    for op, v in _self_updates(inline_pure_temps(fn), attr):
        if op != '+=':
            continue
        res: Optional[Dict[int, int]] = {}
        for wv in (8, 16, 64):
            env = {'self.memory_width': wv, 'preprocessor_data.memory_width': wv, 'memory_width': wv}
            env.update(env_extra or {})
            try:
                res[wv] = eval_int_expr(v, env)       # type: ignore[index]
            except AnalysisError:
                res = None
                break
        out.append(res)
    return out


def _growth(fn: ast.FunctionDef, target: str) -> List[Optional[List[str]]]:
    """every extension of the list `target` (`self.fj_words`) in fn as the list of element texts it adds: `+= (a, b)`,
    `+= [a, b]`, `x = x + (a, b)`, `.extend((a, b))`, `.extend([a, b])`, `.append(a)`; None for a shape that is not a literal."""
    out: List[Optional[List[str]]] = []

    def elems(e: ast.expr) -> Optional[List[str]]:
        return [norm(x) for x in e.elts] if isinstance(e, (ast.Tuple, ast.List)) else None
    for n in walk_no_nested(fn):
        if isinstance(n, ast.AugAssign) and norm(n.target) == target and isinstance(n.op, ast.Add):
            out.append(elems(n.value))
        elif isinstance(n, ast.Assign) and norm(n.targets[0]) == target and isinstance(n.value, ast.BinOp) and isinstance(n.value.op, ast.Add) \
                and norm(n.value.left) == target:
            out.append(elems(n.value.right))
        elif isinstance(n, ast.Call) and dotted(n.func) == f'{target}.extend' and len(n.args) == 1:
            out.append(elems(n.args[0]))
        elif isinstance(n, ast.Call) and dotted(n.func) == f'{target}.append' and len(n.args) == 1:
            out.append([norm(n.args[0])])
    return out


def rule_addr_model(rep: Report, repo: Repo) -> None:
    rep.rule('C02.ADDR-MODEL', 'the preprocessor address model (curr_address; used for labels and $) and the emitter model '
             '(current_address; where words really go) advance by the same amount for every op kind: FlipJump/WordFlip +2w; '
             'Padding +ops*2w with the same ops; NewSegment := start; ReserveBits := address after the reserved bits', 6)
    W = {'w': 1}
    penv = Env({'preprocessor_data.memory_width': W, 'self.memory_width': W})
    aenv = Env({'self.memory_width': W})
    # FlipJump / WordFlip
    from ..pyfacts import hoist_value_helpers
    rm = hoist_value_helpers(repo, PRE, repo.func(PRE, 'resolve_macro_aux'))          # `Expr(pd._advance(2w))` reads as `pd.curr_address += 2w; Expr(pd.curr_address)`
    chain, _ = _isinstance_chain(rm, 'op')
    fj_branch = [b for t, b in chain if t == {'FlipJump', 'WordFlip'}]
    if not fj_branch:
        raise AnalysisError('resolve_macro_aux: FlipJump/WordFlip branch not found')
    pre_fj = [lx.lin_show(to_lin(py_ir(s.value), penv)) for s in fj_branch[0] if isinstance(s, ast.AugAssign)
              and norm(s.target) == 'preprocessor_data.curr_address']
    TWO_W = {8: 16, 16: 32, 64: 128}
    asm_fj = _advances(repo.func(ASM, 'BinaryData.insert_fj_op'), 'current_address')
    rep.check(pre_fj == ['2*w'] and asm_fj == [TWO_W], 'C02.ADDR-MODEL', 'FlipJump/WordFlip', f'preprocessor +{pre_fj}, emitter + {asm_fj} (folded per width)',
              f'{PRE}:{rm.lineno}', expected='+2w on both sides')
    lr = repo.func(ASM, 'labels_resolve')
    lchain, _ = _isinstance_chain(lr, 'op')
    br = {frozenset(t): b for t, b in lchain}
    fjc = [dotted(c.func) for s in br.get(frozenset({'FlipJump'}), []) for c in ast.walk(s) if isinstance(c, ast.Call) and dotted(c.func).startswith('binary_data.')]
    wfc = [dotted(c.func) for s in br.get(frozenset({'WordFlip'}), []) for c in ast.walk(s) if isinstance(c, ast.Call) and dotted(c.func).startswith('binary_data.')]
    rep.check(fjc == ['binary_data.insert_fj_op'] and wfc == ['binary_data.insert_wflip_ops'], 'C02.ADDR-MODEL', 'emitter dispatch',
              f'FlipJump -> {fjc}; WordFlip -> {wfc} (exactly one inline op each, see C02.WFLIP-ONCE)', f'{ASM}:{lr.lineno}')
    # Padding
    al = expand_private_calls(repo, PRE, repo.func(PRE, 'PreprocessorData.align_current_address'), 'PreprocessorData')      # a private `_move_to(address)` reads as the store it makes
    # the pad amount is the least n >= 0 with (k + n) a multiple of the alignment, k = current op index: the assigned expression is
    # folded for k = 0..47 and every alignment 1..17 (not only powers of two) at two widths
    pad_expr = [st.value for st in al.body if isinstance(st, ast.Assign) and norm(st.targets[0]) == 'ops_to_pad']
    wrong = []
    if len(pad_expr) == 1:
        for wv in (8, 64):
            for k in range(48):
                for a in range(1, 18):
                    try:
                        got = eval_int_expr(resolve_names(al, pad_expr[0], keep=('op_size', 'ops_alignment')), {'self.curr_address': k * 2 * wv, 'op_size': 2 * wv, 'ops_alignment': a,
                                                         'self.memory_width': wv})
                    except AnalysisError:
                        raise
                    if got != (-k) % a:
                        wrong.append(f'w={wv} op index {k}, pad {a}: {got} (want {(-k) % a})')
    rep.check(len(pad_expr) == 1 and not wrong, 'C02.ADDR-MODEL', 'Padding:amount', f'{norm(pad_expr[0]) if pad_expr else None}: '
              + (f'{len(wrong)} wrong, e.g. {wrong[0]}' if wrong else '1632 (index, alignment, width) cases agree'), f'{PRE}:{al.lineno}',
              expected='(-k) mod alignment for every alignment >= 1')
    env_al = Env({'self.memory_width': W, 'op_size': py_ir(ast.parse('2 * self.memory_width', mode='eval').body)})
    # the advance, read through a local that merely names it (the two quantities of the model stay as names)
    pre_pad = [lx.lin_show(to_lin(py_ir(resolve_names(al, v, keep=('ops_to_pad', 'op_size'))), env_al)) for op, v in _self_updates(al, 'curr_address') if op == '+=']
    pad_arg = [norm(c.args[0]) for c in calls(al) if dotted(c.func) == 'Padding']
    ip = repo.func(ASM, 'BinaryData.insert_padding')
    asm_pad = [lx.lin_show(to_lin(py_ir(resolve_names(ip, v, keep=('ops_count',))), aenv)) for op, v in _self_updates(ip, 'current_address') if op == '+=']     # a named op size reads as 2w

    def _factors(t: str) -> List[str]:
        import re as _re
        return sorted(_re.findall(r'[A-Za-z_][\w.]*|\d+', t))
    pad_call = [norm(c.args[0]) for s in br.get(frozenset({'Padding'}), []) for c in ast.walk(s) if isinstance(c, ast.Call) and dotted(c.func) == 'binary_data.insert_padding']
    pcls = repo.func(OPS, 'Padding.__init__')
    stored = any(norm(s) == 'self.ops_count = ops_count' for s in pcls.body)
    op_size_def = [norm(s.value) for s in al.body if isinstance(s, ast.Assign) and norm(s.targets[0]) == 'op_size']
    rep.check(pre_pad == ['(2*w)*(ops_to_pad)'] or pre_pad == ['(ops_to_pad)*(2*w)'] or pre_pad == ['2*(ops_to_pad)*(w)'] or
              (len(pre_pad) == 1 and 'ops_to_pad' in pre_pad[0] and op_size_def == ['2 * self.memory_width']), 'C02.ADDR-MODEL', 'Padding:preprocessor',
              f'+{pre_pad} with op_size={op_size_def}; emits Padding({pad_arg})', f'{PRE}:{al.lineno}', expected='+ops_to_pad * 2w, Padding(ops_to_pad)')
    rep.check(len(asm_pad) == 1 and _factors(asm_pad[0].replace('ops_count', 'ops_to_pad')) == _factors(pre_pad[0] if pre_pad else '') and pad_arg == ['ops_to_pad']
              and pad_call == ['op.ops_count'] and stored, 'C02.ADDR-MODEL', 'Padding:emitter',
              f'+{asm_pad} for insert_padding({pad_call}); Padding stores ops_count={stored}', f'{ASM}:{ip.lineno}',
              expected='the same product with the same operand')
    # NewSegment
    ins = expand_private_calls(repo, PRE, repo.func(PRE, 'PreprocessorData.insert_segment'), 'PreprocessorData')
    pre_seg = [norm(v) for op, v in _self_updates(ins, 'curr_address') if op == '=']
    seg_arg = [norm(c.args[0]) for c in calls(ins) if dotted(c.func) == 'NewSegment']
    ns = repo.func(ASM, 'BinaryData.insert_new_segment')
    def final_state(method: str) -> Dict[str, str]:
        outs = method_outcomes(repo, ASM, 'BinaryData', method)
        if len(outs) != 1:
            raise AnalysisError(f'BinaryData.{method}: expected one straight-line path, found {len(outs)}')
        return outs[0].state
    asm_seg = final_state('insert_new_segment')
    seg_call = [[norm(a) for a in c.args] for s in br.get(frozenset({'NewSegment'}), []) for c in ast.walk(s) if isinstance(c, ast.Call) and dotted(c.func) == 'binary_data.insert_new_segment']
    ok = pre_seg == ['next_segment_start'] and seg_arg == ['next_segment_start'] and asm_seg.get('self.first_address') == 'first_address' \
        and asm_seg.get('self.current_address') == 'first_address' and asm_seg.get('self.next_wflip_address') == 'wflip_first_address' \
        and seg_call == [['fjm_writer', 'op.start_address', 'op.wflip_start_address']]
    rep.check(ok, 'C02.ADDR-MODEL', 'NewSegment', f'preprocessor := {pre_seg}, NewSegment({seg_arg}); emitter {asm_seg} from {seg_call}',
              f'{PRE}:{ins.lineno}', expected='both cursors := the segment start')
    # ReserveBits
    ir = repo.func(PRE, 'PreprocessorData.insert_reserve')
    iro = [o for o in method_outcomes(repo, PRE, 'PreprocessorData', 'insert_reserve') if o.result[0] != 'raise']      # a range refusal is not a way the address model advances
    body = [f'{k} = {v}' for o in iro for k, v in sorted(o.state.items())] + [e for o in iro for e in o.effects] if len(iro) == 1 else ['<more than one path>']
    rb = repo.func(ASM, 'BinaryData.insert_reserve_bits')
    asm_rb = final_state('insert_reserve_bits')
    rb_call = [[norm(a) for a in c.args] for s in br.get(frozenset({'ReserveBits'}), []) for c in ast.walk(s) if isinstance(c, ast.Call) and dotted(c.func) == 'binary_data.insert_reserve_bits']
    ok = body == ['self.curr_address = self.curr_address + reserved_bits_size',
                  'self.result_ops.append(ReserveBits(self.curr_address + reserved_bits_size))'] and \
        asm_rb.get('self.first_address') == 'new_first_address' and asm_rb.get('self.current_address') == 'new_first_address' and \
        rb_call == [['fjm_writer', 'op.first_address_after_reserved']]
    rep.check(ok, 'C02.ADDR-MODEL', 'ReserveBits', f'preprocessor {body}; emitter {asm_rb} from {rb_call}', f'{PRE}:{ir.lineno}',
              expected='advance, then record the address AFTER the reserved bits; emitter jumps to it')
    # wflip area start = the preprocessor address at the end of the segment
    # forward substitution over insert_segment and finish (same-class helpers read through, values in terms of the ENTRY state):
    # on every path the segment that is being closed gets wflip_start_address := the entry value of curr_address - i.e. before
    # the cursor moves and before last_new_segment is replaced (a later store would name the new object / the moved cursor)
    want_eff = 'self.last_new_segment.wflip_start_address = self.curr_address'
    probs = []
    for meth in ('insert_segment', 'finish'):
        outs = method_outcomes(repo, PRE, 'PreprocessorData', meth, inline_public=True)
        for o in outs:
            stores = [e for e in o.effects if '.wflip_start_address = ' in e]
            if stores != [want_eff]:
                probs.append(f'{meth} [{", ".join(o.conds) or "always"}]: {stores or "no store"}')
        if not outs:
            probs.append(f'{meth}: no path')
    rep.check(not probs, 'C02.ADDR-MODEL', 'wflip-area-start', '; '.join(probs[:3]) if probs else
              'insert_segment and finish store the entry value of curr_address into the segment being closed, on every path', f'{PRE}:{ins.lineno}',
              expected='the auxiliary-op area starts where the segment\'s statements end')


def rule_dollar(rep: Report, repo: Repo) -> None:
    rep.rule('C02.DOLLAR', 'for a FlipJump/WordFlip statement the address is advanced first, then `$` is bound to the new address, then '
             'the op is substituted, then `$` is removed; labels do not move the address', 2)
    from ..pyfacts import hoist_value_helpers
    rm = hoist_value_helpers(repo, PRE, repo.func(PRE, 'resolve_macro_aux'))          # an "advance and hand back the address" helper reads as its two steps
    chain, _ = _isinstance_chain(rm, 'op')
    fj = [b for t, b in chain if t == {'FlipJump', 'WordFlip'}][0]
    def kind(st: ast.stmt) -> str:
        if isinstance(st, ast.AugAssign) and norm(st.target) == 'preprocessor_data.curr_address' and isinstance(st.op, ast.Add):
            return 'ADVANCE'
        if isinstance(st, ast.Assign) and norm(st.targets[0]) == "params_dict['$']" and norm(st.value) == 'Expr(preprocessor_data.curr_address)':
            return 'BIND'
        if isinstance(st, ast.Expr) and isinstance(st.value, ast.Call) and dotted(st.value.func) == 'preprocessor_data.result_ops.append' \
                and norm(st.value.args[0]) == 'op.eval_new(params_dict)':
            return 'SUBST'
        if isinstance(st, ast.Delete) and [norm(t) for t in st.targets] == ["params_dict['$']"]:
            return 'UNBIND'
        return 'OTHER:' + norm(st)[:40]
    seq = [kind(s) for s in fj]
    want = ['ADVANCE', 'BIND', 'SUBST', 'UNBIND']
    rep.check(seq == want, 'C02.DOLLAR', 'FlipJump/WordFlip branch', str(seq), f'{PRE}:{fj[0].lineno}', expected=str(want))
    lab = [b for t, b in chain if t == {'Label'}][0]
    moves = [norm(s) for s in lab for n in ast.walk(s) if isinstance(n, (ast.AugAssign, ast.Assign)) and 'curr_address' in norm(n)]
    rep.check(not moves and [norm(s) for s in lab] == ['preprocessor_data.insert_label(op.eval_name(params_dict), op.code_position)'],
              'C02.DOLLAR', 'Label branch', str([norm(s) for s in lab]), f'{PRE}:{lab[0].lineno}', expected='insert the label at the current address; no movement')


def rule_wflip_once(rep: Report, repo: Repo) -> None:
    rep.rule('C02.WFLIP-ONCE', 'on every path through insert_wflip_ops exactly one op is emitted inline (insert_fj_op), never inside '
             'the chain loop; every other op of the chain is placed through get_wflip_spot', 1)
    fn = repo.func(ASM, 'BinaryData.insert_wflip_ops')
    g = build_py_cfg(fn)

    def ev(node: Any) -> List[str]:
        a = node.ast
        if a is None or not isinstance(a, ast.AST) or node.kind in ('except',):
            return []
        root = a if node.kind != 'with' else ast.Module(body=[], type_ignores=[])
        if node.kind in ('cond', 'iter') and not isinstance(a, ast.expr):
            root = a.iter if hasattr(a, 'iter') else a
        return ['INLINE' for c in ast.walk(root) if isinstance(c, ast.Call) and dotted(c.func) == 'self.insert_fj_op']
    probs, IN, cnt = run_typestate(g, g.entry, 'START', ev, {'INLINE': {'START'}})
    at_exit = IN.get(g.exit, set())
    ok = not probs and at_exit == {'INLINE'}
    aux = [dotted(c.func) for c in calls(fn) if dotted(c.func) in ('self.get_wflip_spot',)]
    in_loop = any(isinstance(n, ast.While) and any(isinstance(c, ast.Call) and dotted(c.func) == 'self.insert_fj_op' for c in ast.walk(n))
                  for n in ast.walk(fn))
    rep.check(ok and len(aux) == 1 and not in_loop, 'C02.WFLIP-ONCE', 'BinaryData.insert_wflip_ops',
              f'states at exit {sorted(at_exit)}, second-inline problems {len(probs)}, aux spots via get_wflip_spot={len(aux)}, inline op in loop={in_loop}',
              f'{ASM}:{fn.lineno}', expected='exactly one insert_fj_op on every path, outside the loop')


def rule_paired(rep: Report, repo: Repo) -> None:
    rep.rule('C02.PAIRED-UPDATE', 'inside BinaryData every extension of a word list by k words is paired in the same method with the '
             'cursor advancing by k*w; holes and chain spots are addressed as base + w*index; the segment length is derived from '
             'the same cursors', 5)
    aenv = Env({'self.memory_width': {'w': 1}})
    fj = canonical_fn(repo, ASM, 'BinaryData.insert_fj_op')
    ext = _growth(fj, 'self.fj_words')
    adv = _advances(repo.func(ASM, 'BinaryData.insert_fj_op'), 'current_address')
    rep.check(ext == [['flip', 'jump']] and adv == [{8: 16, 16: 32, 64: 128}], 'C02.PAIRED-UPDATE', 'insert_fj_op',
              f'words += {ext}; address += {adv} (folded per width)', f'{ASM}:{fj.lineno}', expected='two words (flip, jump) and +2w')
    sp = repo.func(ASM, 'BinaryData.get_wflip_spot')
    outs = method_outcomes(repo, ASM, 'BinaryData', 'get_wflip_spot')
    holes = [o for o in outs if 'self.padding_ops_indices' in o.conds]
    fresh = [o for o in outs if 'not self.padding_ops_indices' in o.conds]
    def _new_spot_ok(o: Any) -> bool:
        # the record is built from PRE-state values (index = old length, address = old cursor); its list is the word list object itself,
        # which `+=` extends in place - written before or after the extension it is the same object
        if o.state != {'self.wflip_words': 'self.wflip_words + (0, 0)', 'self.next_wflip_address': 'self.next_wflip_address + 2 * self.memory_width'}:
            return False
        txt = None
        if o.result[0] == 'return' and (o.result[1] or '').startswith('_v') and len(o.effects) == 1 and o.effects[0].startswith(o.result[1] + ' := '):
            txt = o.effects[0].split(' := ', 1)[1]
        elif o.result[0] == 'return' and not o.effects:
            txt = o.result[1]
        try:
            c = ast.parse(txt or '', mode='eval').body
        except SyntaxError:
            return False
        if not (isinstance(c, ast.Call) and dotted(c.func) == 'WFlipSpot' and len(c.args) == 3 and not c.keywords):
            return False
        a0, a1, a2 = (norm(a) for a in c.args)
        return a0 in ('self.wflip_words', 'self.wflip_words + (0, 0)') and a1 == 'len(self.wflip_words)' and a2 == 'self.next_wflip_address'
    ok_new = len(fresh) == 1 and _new_spot_ok(fresh[0])
    rep.check(ok_new, 'C02.PAIRED-UPDATE', 'get_wflip_spot:new-spot', f'{[(o.state, o.effects, o.result) for o in fresh]}', f'{ASM}:{sp.lineno}',
              expected='spot = (list, len(list), next address) taken BEFORE two words are appended and the address advances by 2w')
    # the hole path: one pop, and nothing else but building the spot (returned directly or through a local)
    ok_hole = len(holes) == 1 and not holes[0].state
    if ok_hole:
        binds = dict(e.split(' := ', 1) for e in holes[0].effects if ' := ' in e)
        pops = [k for k, v_ in binds.items() if v_ == 'self.padding_ops_indices.pop()']
        built = {k: v_ for k, v_ in binds.items() if v_.startswith('WFlipSpot(')}
        ok_hole = len(pops) == 1 and len(binds) == len(holes[0].effects) == 1 + len(built) and len(built) <= 1
        if ok_hole:
            v = pops[0]
            res = holes[0].result[1] or ''
            res = built.get(res, res)
            ok_hole = holes[0].result[0] == 'return' and res == f'WFlipSpot(self.fj_words, {v}, self.first_address + self.memory_width * {v})'
    rep.check(ok_hole and len(outs) == 2, 'C02.PAIRED-UPDATE', 'get_wflip_spot:pad-hole', f'{[(o.effects, o.result) for o in holes]}', f'{ASM}:{sp.lineno}',
              expected='hole address = segment first address + w * word index; each hole used once (one pop)')
    pad = inline_pure_temps(repo.func(ASM, 'BinaryData.insert_padding'))
    pad.body = [inline_module_constants(repo, ASM, st) for st in pad.body]          # type: ignore[arg-type,misc]
    # two equivalent shapes are recognised: the append loop, and extend(range(..)) + one bulk extension of the word list. in both
    # the recorded indices are range(L, L + 2k, 2) with L = len(fj_words) on entry and the word list grows by 2k zero words
    class LenL(ast.NodeTransformer):
        def visit_Call(self, node: ast.Call) -> ast.AST:
            if dotted(node.func) == 'len' and len(node.args) == 1 and norm(node.args[0]) == 'self.fj_words':
                return ast.Name(id='L', ctx=ast.Load())
            return self.generic_visit(node)
    rng = None
    grow = None                 # words added per unit, number of units (expressions over k)
    shape = 'unrecognised'
    loops = [n for n in pad.body if isinstance(n, ast.For)]
    if len(loops) == 1 and isinstance(loops[0].iter, ast.Call) and dotted(loops[0].iter.func) == 'range' and isinstance(loops[0].target, ast.Name):
        body = [norm(x) for x in loops[0].body]
        if sorted(body) == sorted([f'self.padding_ops_indices.append({loops[0].target.id})', 'self.fj_words += (0, 0)']):
            rng, grow, shape = loops[0].iter.args, 'per-iteration', 'append loop'
    else:
        ext = [c for c in calls(pad) if dotted(c.func) == 'self.padding_ops_indices.extend' and len(c.args) == 1 and isinstance(c.args[0], ast.Call)
               and dotted(c.args[0].func) == 'range']
        bulk = [x for x in pad.body if isinstance(x, ast.AugAssign) and norm(x.target) == 'self.fj_words' and isinstance(x.op, ast.Add)]
        if len(ext) == 1 and len(bulk) == 1:
            v = bulk[0].value
            if isinstance(v, ast.BinOp) and isinstance(v.op, ast.Mult):
                tup, cnt = (v.left, v.right) if isinstance(v.left, ast.Tuple) else (v.right, v.left)
                if isinstance(tup, ast.Tuple) and all(isinstance(e, ast.Constant) and e.value == 0 for e in tup.elts):
                    rng, grow, shape = ext[0].args[0].args, (len(tup.elts), cnt), 'extend(range) + bulk zeros'
    wrong = []
    if rng is not None and len(rng) == 3:
        for Lv in (0, 2, 10):
            for k in (0, 1, 3, 7):
                env = {'L': Lv, 'ops_count': k}
                for st0 in pad.body:          # straight-line integer temporaries bound before the range is taken (entry-state values)
                    if isinstance(st0, ast.Assign) and len(st0.targets) == 1 and isinstance(st0.targets[0], ast.Name):
                        try:
                            env[st0.targets[0].id] = eval_int_expr(LenL().visit(clone(st0.value)), env)
                        except AnalysisError:
                            pass
                    elif not (isinstance(st0, ast.Expr) and isinstance(st0.value, ast.Constant)):
                        break
                got = list(range(*[eval_int_expr(LenL().visit(clone(a)), env) for a in rng]))
                want = list(range(Lv, Lv + 2 * k, 2))
                words = 2 * len(got) if grow == 'per-iteration' else grow[0] * eval_int_expr(LenL().visit(clone(grow[1])), env)
                if got != want or words != 2 * k:
                    wrong.append(f'L={Lv} ops={k}: indices {got[:4]} (want {want[:4]}), {words} words (want {2 * k})')
    else:
        wrong.append('neither the append loop nor the extend(range)+bulk shape')
    adv = [lx.lin_show(to_lin(py_ir(s.value), aenv)) for s in pad.body if isinstance(s, ast.AugAssign) and norm(s.target) == 'self.current_address']
    if shape == 'unrecognised':
        raise AnalysisError('BinaryData.insert_padding: unrecognised shape (extend the recogniser after review)')
    rep.check(not wrong and len(adv) == 1 and adv[0] in ('(2*w)*(ops_count)', '(ops_count)*(2*w)'), 'C02.PAIRED-UPDATE', 'insert_padding',
              f'{shape}: ' + (wrong[0] if wrong else 'indices range(L, L+2k, 2), 2k zero words') + f'; address += {adv}', f'{ASM}:{pad.lineno}',
              expected='ops_count holes recorded at the indices of the zero words added; address += ops_count * 2w')
    # named temporaries substituted, private helpers expanded: what reaches the writer is read off the two writer calls
    seg = canonical_fn(repo, ASM, 'add_segment_to_fjm')
    w_args = [[norm(a) for a in c.args] for c in calls(seg) if dotted(c.func) == 'fjm_writer.add_segment']
    d_args = [[norm(a) for a in c.args] for c in calls(seg) if dotted(c.func) == 'fjm_writer.add_data']
    d_names = [norm(s.targets[0]) for s in ast.walk(seg) if isinstance(s, ast.Assign) and isinstance(s.value, ast.Call)
               and dotted(s.value.func) == 'fjm_writer.add_data']
    dn = d_names[0] if d_names else '?'
    # start and length are FOLDED on a grid (named / tuple-unpacked intermediates read through), the two data arguments compared as written
    from ..pyfacts import read_through_locals as _rtl
    seg2 = _rtl(seg)
    w_calls2 = [c for c in calls(seg2) if dotted(c.func) == 'fjm_writer.add_segment']
    place_ok = len(w_calls2) == 1 and len(w_calls2[0].args) == 4
    if place_ok:
        for fa, la, wv in ((0, 64, 8), (128, 128, 16), (64, 640, 32), (1 << 20, (1 << 20) + 128, 64)):
            try:
                got = (eval_int_expr(w_calls2[0].args[0], {'first_address': fa, 'last_address': la, 'memory_width': wv}),
                       eval_int_expr(w_calls2[0].args[1], {'first_address': fa, 'last_address': la, 'memory_width': wv}))
            except AnalysisError:
                got = None
            place_ok = place_ok and got == (fa // wv, (la - fa) // wv)
    rep.check(place_ok and len(w_args) == 1 and w_args[0][2:] == [dn, 'len(fj_words + wflip_words)']
              and d_args == [['fj_words + wflip_words']],
              'C02.PAIRED-UPDATE', 'add_segment_to_fjm', f'add_data{d_args} add_segment{w_args}', f'{ASM}:{seg.lineno}',
              expected='start = first // w, length = (last - first) // w, data = fj_words + wflip_words and its length')
    clo = canonical_fn(repo, ASM, 'BinaryData.close_and_add_segment')
    args = [[norm(a) for a in c.args] for c in calls(clo) if dotted(c.func) == 'add_segment_to_fjm']
    rep.check(args == [['self.memory_width', 'fjm_writer', 'self.first_address', 'self.next_wflip_address', 'self.fj_words', 'self.wflip_words']],
              'C02.PAIRED-UPDATE', 'close_and_add_segment', str(args), f'{ASM}:{clo.lineno}', expected='[first_address, next_wflip_address) with both word lists')


def rule_flush_all(rep: Report, repo: Repo) -> None:
    rep.rule('C02.FLUSH-ALL', 'a segment is written out with everything buffered for it: in add_segment_to_fjm and in every BinaryData '
             'method that calls it, a return that skips the write is taken only under the test that the address range handed to the '
             'write is empty (first == last over the same two operands); emptiness of one of the word lists is not that test - chain '
             'ops may be buffered in wflip_words while fj_words is empty (after a reserve)', 2)
    def early_returns(fn: ast.AST, before: ast.AST) -> List[Tuple[ast.Return, List[str]]]:
        """the returns that come before the node `before` in the tree order of fn (positions, not line numbers: an expanded helper
        keeps the line numbers of its own source), each with the conjuncts of the `if` it sits in (none for a bare return)"""
        pos = {id(n): k for k, n in enumerate(walk_no_nested(fn))}
        limit = pos.get(id(before), 10 ** 9)
        out = []
        for n in walk_no_nested(fn):
            if isinstance(n, ast.If):
                for r in n.body:
                    if isinstance(r, ast.Return) and pos[id(r)] < limit:
                        conj = n.test.values if isinstance(n.test, ast.BoolOp) and isinstance(n.test.op, ast.And) else [n.test]
                        out.append((r, [norm(c) for c in conj]))
        bare = [r for r in getattr(fn, 'body', []) if isinstance(r, ast.Return) and pos[id(r)] < limit]
        out += [(r, []) for r in bare]
        return out
    seg = canonical_fn(repo, ASM, 'add_segment_to_fjm')
    writes = [c for c in calls(seg) if dotted(c.func) == 'fjm_writer.add_segment']
    if not writes:
        raise AnalysisError('C02.FLUSH-ALL: add_segment_to_fjm no longer calls fjm_writer.add_segment')
    ers = early_returns(seg, writes[0])
    ok = all(('first_address == last_address' in g or 'last_address == first_address' in g) for _, g in ers)
    rep.check(ok, 'C02.FLUSH-ALL', 'add_segment_to_fjm', f'{len(ers)} early return(s) guarded by {[g for _, g in ers]}', f'{ASM}:{seg.lineno}',
              expected='only `first_address == last_address` skips the write')
    n = 0
    for name, fns in repo.methods(ASM, 'BinaryData').items():
        if name.startswith('_') and name != '__init__':
            continue                    # a private helper is read inside its callers
        fn = canonical_fn(repo, ASM, f'BinaryData.{name}')
        fl = [c for c in calls(fn) if dotted(c.func) == 'add_segment_to_fjm']
        if not fl:
            continue
        n += 1
        a, b = norm(fl[0].args[2]), norm(fl[0].args[3])
        ers = early_returns(fn, fl[0])
        bad = [g for _, g in ers if f'{a} == {b}' not in g and f'{b} == {a}' not in g]
        # the write itself may sit under a test: only the non-empty-range test may guard it
        from ..pyfacts import ancestors as _anc
        child: ast.AST = fl[0]
        for an in _anc(fl[0]):
            if isinstance(an, ast.If):
                in_body = any(child is x or any(child is y for y in ast.walk(x)) for x in an.body)
                want = cn(ast.parse(f'{a} != {b}' if in_body else f'{a} == {b}', mode='eval').body)
                if any(child is y for y in ast.walk(an.test)):
                    pass
                elif cn(an.test) != want:
                    bad.append([f'the write is guarded by `{norm(an.test)}`'])
            child = an
            if an is fn:
                break
        rep.check(not bad, 'C02.FLUSH-ALL', f'BinaryData.{name}', f'{len(ers)} early return(s); not tied to the range test: {bad}' if bad else
                  f'{len(ers)} early return(s), each under `{b} == {a}`', f'{ASM}:{fn.lineno}',
                  expected=f'a return before the write only under `{b} == {a}`')
    if n < 2:
        raise AnalysisError('C02.FLUSH-ALL: fewer than 2 flushing BinaryData methods found')


def rule_pad_state(rep: Report, repo: Repo) -> None:
    rep.rule('C02.PAD-STATE', 'the recorded padding holes index into fj_words: every BinaryData method that hands fj_words to '
             'add_segment_to_fjm (which clears it) clears padding_ops_indices before the next wflip can look for a hole', 3)
    seg = repo.func(ASM, 'add_segment_to_fjm')
    clears = [norm(s) for s in seg.body if isinstance(s, ast.Expr)]
    rep.check('fj_words.clear()' in clears and 'wflip_words.clear()' in clears, 'C02.PAD-STATE', 'add_segment_to_fjm:clears', str(clears[-2:]),
              f'{ASM}:{seg.lineno}', expected='both word lists are cleared after the segment is added')
    n = 0
    for name, fns in repo.methods(ASM, 'BinaryData').items():
        if name == 'close_and_add_segment' or name.startswith('_'):
            continue
        fn = canonical_fn(repo, ASM, f'BinaryData.{name}')          # private helpers read in place
        direct = [c for c in calls(fn) if (dotted(c.func) == 'add_segment_to_fjm' and 'self.fj_words' in [norm(a) for a in c.args])
                  or dotted(c.func) == 'self.close_and_add_segment']
        if not direct:
            continue
        n += 1
        # effect order on every path (private helpers inlined): the hole list is cleared after the last flush
        ok = True
        for o in method_outcomes(repo, ASM, 'BinaryData', name):
            fl = [i for i, e in enumerate(o.effects) if e.startswith('add_segment_to_fjm(') or e.startswith('self.close_and_add_segment(')]
            cl = [i for i, e in enumerate(o.effects) if e == 'self.padding_ops_indices.clear()']
            ok = ok and bool(fl) and bool(cl) and max(cl) > max(fl)
        rep.check(ok, 'C02.PAD-STATE', f'BinaryData.{name}', 'clears the hole list after flushing fj_words' if ok else
                  'flushes fj_words (cleared by add_segment_to_fjm) but keeps padding_ops_indices: a later wflip writes through a stale index '
                  '(IndexError -> generic failure, or a silently overwritten op)', f'{ASM}:{fn.lineno}', expected='self.padding_ops_indices.clear() after the flush')
    if n < 2:
        raise AnalysisError('C02.PAD-STATE: fewer than 2 flushing methods found')


def rule_validate_first(rep: Report, repo: Repo) -> None:
    rep.rule('C02.VALIDATE-FIRST', 'segment boundaries are validated (alignment, inside the address space) before any data is added; '
             'impossible layouts are rejected with library errors', 3)
    seg = canonical_fn(repo, ASM, 'add_segment_to_fjm')
    order = [dotted(c.func) for c in calls_in_order(seg) if dotted(c.func) in
             ('validate_addresses', 'fjm_writer.add_data', 'fjm_writer.add_segment')]
    rep.check(order == ['validate_addresses', 'fjm_writer.add_data', 'fjm_writer.add_segment'], 'C02.VALIDATE-FIRST', 'add_segment_to_fjm:order',
              str(order), f'{ASM}:{seg.lineno}')
    va = canonical_fn(repo, ASM, 'validate_addresses', keep=['assert_address_in_memory'])
    g = [(cn(t), raised_class(r)) for t, r, _ in raise_guards(va)]
    cs = [norm(c) for c in calls_in_order(va) if dotted(c.func) == 'assert_address_in_memory']
    rep.check(g == [(cc('first_address % memory_width != 0 or last_address % memory_width != 0'), 'FlipJumpAssemblerException')] and
              cs == ['assert_address_in_memory(memory_width, first_address)', 'assert_address_in_memory(memory_width, last_address - 1)'],
              'C02.VALIDATE-FIRST', 'validate_addresses', f'{g}; {cs}', f'{ASM}:{va.lineno}')
    am = repo.func(ASM, 'assert_address_in_memory')
    g = [(cn(t), raised_class(r)) for t, r, _ in raise_guards(am)]
    rep.check(g == [(cc('address < 0 or address >= 1 << memory_width'), 'FlipJumpAssemblerException')], 'C02.VALIDATE-FIRST',
              'assert_address_in_memory', str(g), f'{ASM}:{am.lineno}', expected='0 <= address < 2^w')
    # the value handed on by the two layout helpers is w-aligned: every `return <value>` is reached only when
    # <value> % memory_width == 0 is known (enclosing / preceding tests, a preceding test that ends in the NoReturn error helper)
    from ..excflow import GuardFacts, dominating_guards
    for q in ('get_next_segment_start', 'get_reserved_bits_size'):
        fn = expand_private_calls(repo, PRE, repo.func(PRE, q))          # a private `assert aligned` helper reads as its test
        rets = [r for r in walk_no_nested(fn) if isinstance(r, ast.Return) and r.value is not None]
        okv = bool(rets)
        why = []
        for r in rets:
            gf = GuardFacts(dominating_guards(r))
            v = norm(r.value)
            known = gf.get(f'{v} % preprocessor_data.memory_width == 0')
            why.append(f'return {v}: aligned={known}')
            okv = okv and known is True
        errs = any(isinstance(c, ast.Call) and dotted(c.func) == 'macro_resolve_error' for c in ast.walk(fn))
        rep.check(okv and errs, 'C02.VALIDATE-FIRST', q, f'w-alignment known at every value return: {why}; error helper called={errs}', f'{PRE}:{fn.lineno}',
                  expected='the returned address / size is a multiple of w, otherwise the resolve error')


def rule_range_check(rep: Report, repo: Repo) -> None:
    """the emitter's range validation, folded on a grid of (first, last) bit addresses at w = 8: a range is refused exactly when it is unaligned,
    starts outside the memory or - when it is not empty - ends outside it; the EMPTY range [a, a) is what `reserve 0` produces"""
    rep.rule('C02.RANGE-CHECK', 'validate_addresses refuses a [first, last) range iff it is unaligned, first lies outside [0, 2^w) or (last > first '
             'and last - 1 lies outside): folded with the refusal of assert_address_in_memory substituted at each call under the conditions that '
             'dominate the call - in particular an empty range at address 0 is accepted', 1)
    from ..excflow import refusal_tests, dominating_guards
    va = repo.func(ASM, 'validate_addresses')
    aim = repo.func(ASM, 'assert_address_in_memory')
    aim_tests = [t for _r, t in refusal_tests(aim)]
    ap = [a.arg for a in aim.args.args]
    if not aim_tests or len(ap) != 2:
        raise AnalysisError('C02.RANGE-CHECK: assert_address_in_memory(memory_width, address) with a refusal expected')

    def subst(e: ast.expr, binding: Dict[str, ast.expr]) -> ast.expr:
        class S(ast.NodeTransformer):
            def visit_Name(self, node: ast.Name) -> ast.AST:
                return clone(binding[node.id]) if node.id in binding and isinstance(node.ctx, ast.Load) else node
        return ast.fix_missing_locations(S().visit(clone(e)))
    tests: List[ast.expr] = [t for _r, t in refusal_tests(va)]
    for c in calls(va):
        if dotted(c.func) == 'assert_address_in_memory' and len(c.args) == 2:
            conds = [resolve_names(va, ast.parse(t, mode='eval').body) if pol else ast.UnaryOp(op=ast.Not(), operand=resolve_names(va, ast.parse(t, mode='eval').body))
                     for t, pol in dominating_guards(c)]          # named conditions read as what they name
            for t in aim_tests:
                inner = subst(t, dict(zip(ap, [resolve_names(va, a_) for a_ in c.args])))
                tests.append(ast.fix_missing_locations(ast.BoolOp(op=ast.And(), values=conds + [inner])) if conds else inner)
    vp = [a.arg for a in va.args.args]
    bad = []
    W = 8
    for first in (-8, 0, 8, 16, 248, 256, 264, 4):
        for last in (first, first + 8, first + 16, 256, 264, first + 4):
            if last < first:
                continue
            env = dict(zip(vp, (W, first, last)))
            try:
                got = any(bool(eval_int_expr(t, env)) for t in tests)
            except AnalysisError as ex:
                bad.append(str(ex))
                break
            want = first % W != 0 or last % W != 0 or first < 0 or first >= (1 << W) or (last > first and last - 1 >= (1 << W))
            if got != want:
                bad.append(f'[{first}, {last}) at w={W}: refused={got}, expected {want}')
    rep.check(not bad, 'C02.RANGE-CHECK', 'validate_addresses', bad[0] if bad else f'{len(tests)} refusal conditions agree with the reference on the grid (empty ranges included)',
              repo.site(ASM, va), expected='refused iff unaligned / first outside / non-empty and last - 1 outside')


def check(rep: Report, repo: Optional[Repo] = None) -> None:
    repo = repo or Repo()
    rep.units = dict(files=[ASM, PRE, OPS], functions=['resolve_macro_aux', 'labels_resolve', 'BinaryData.*', 'add_segment_to_fjm',
                     'PreprocessorData.insert_segment/insert_reserve/align_current_address/patch_last_wflip_address'])
    rule_dispatch(rep, repo)
    rule_addr_model(rep, repo)
    rule_dollar(rep, repo)
    rule_wflip_once(rep, repo)
    rule_paired(rep, repo)
    rule_pad_state(rep, repo)
    rule_flush_all(rep, repo)
    rule_validate_first(rep, repo)
    rule_range_check(rep, repo)
    rep.not_decided += ['that every emitted word equals its expression value (C12 decides the operator tables)',
                        'the content and sharing of wflip chains (value-level)']


MANIFEST = dict(
    technique='sibling agreement of two address models via linear forms; typestate (exactly-once) and state-coupling rules',
    level_text='Static, structural: the label/$ address model of the preprocessor and the emission cursor of the assembler advance '
               'identically for every op kind (linear forms in w), `$` is bound after the advance, a wflip emits exactly one inline '
               'op on every path, word-list growth is paired with cursor growth, the padding-hole list is cleared whenever fj_words is '
               'flushed, and boundaries are validated before data is added. Word values and chain contents are not decided.',
    level_note='Trusted: CPython ast; linexpr normaliser. Not decided: values of emitted words, optimal chain sharing.',
    design_ref='DESIGN.md section 4 C02',
)
