"""C05 - bit library macros compute their documented function (structural necessary conditions only)."""
from __future__ import annotations
from typing import Optional
from ..core import Report
from ..fjfront import Stl
from ..pyfacts import Repo
from ..stlrules import rule_closure, rule_extent, rule_alias, rule_scratch, rule_const_fits, rule_carry_top, rule_jumpword_restore, rule_alias_safe, rule_snapshot_order, rule_zero_noop

FILES = ['flipjump/stl/bit/memory.fj', 'flipjump/stl/bit/logics.fj', 'flipjump/stl/bit/cond_jumps.fj', 'flipjump/stl/bit/shifts.fj',
         'flipjump/stl/bit/math.fj', 'flipjump/stl/bit/mul.fj', 'flipjump/stl/bit/div.fj']


def check(rep: Report, repo: Optional[Repo] = None) -> None:
    repo = repo or Repo()
    stl = Stl(repo)
    rep.units = dict(stl_files=len(stl.files), macros=len(stl.macros), property_files=FILES)
    rule_closure(rep, stl, 'C05', FILES, 150)
    rule_extent(rep, stl, 'C05', FILES, 55, widths=(64,) if rep.tier == 'quick' else (16, 32, 64))
    rule_scratch(rep, stl, 'C05', FILES, 60)
    rule_alias(rep, stl, 'C05', FILES, 15)
    rule_const_fits(rep, stl, 'C05', FILES, 2)
    rule_carry_top(rep, stl, 'C05', FILES, 8)
    rule_snapshot_order(rep, stl, 'C05', FILES, 5)
    rule_jumpword_restore(rep, stl, 'C05', FILES, 2)
    rule_alias_safe(rep, stl, 'C05', FILES, 2)
    rule_zero_noop(rep, stl, 'C05', FILES, 4)
    rep.assumptions.append('footprints assume generic position: distinct symbolic operands of a compile-time `==` / `!=` aliasing test denote distinct variables')
    rep.not_decided.append('bit-serial arithmetic correctness for every operand (needs execution of FlipJump code)')


MANIFEST = dict(
    technique='own .fj front end: link closure and doc-extent vs computed cell footprint; scratch / alias / jump-word typestate / constant-width / snapshot-order rules; in-place arithmetic reaches the top of the assigned extent (CARRY-TOP)',
    level_text='Also: scratch initialisation, alias hazards, jump-word give-back (typestate), constant widths, and inputs are sampled before any input is modified in place. Static, PARTIAL: every macro call / global label reachable from the bit files resolves (name and arity), and each documented '
               'vector extent equals the computed cell footprint of that parameter for sizes 4/5/8. It does NOT decide the bit-serial '
               'arithmetic itself.',
    level_note='Trusted: fjfront, spec/stl_extents.json. The value-level body of C05 needs execution and is outside this technique family.',
    design_ref='DESIGN.md section 4 C04/C05/C08/C09',
)
