"""C03 - macro expansion is hygienic inlining (structural clauses)."""
from __future__ import annotations

import ast
from typing import Any, Dict, List, Optional, Set, Tuple

from ..core import AnalysisError, Report
from ..names import fixed_text_of_fstring, identifier_alphabet, label_table_writers
from ..pyfacts import Repo, cc, cn, expand_private_calls, inline_pure_temps, spread_literal_sequences, calls, dotted, norm, walk_no_nested
from .c02 import _isinstance_chain

PRE = 'flipjump/assembler/preprocessor.py'
OPS = 'flipjump/assembler/inner_classes/ops.py'
EXPR = 'flipjump/assembler/inner_classes/expr.py'
PARSER = 'flipjump/assembler/fj_parser.py'
ASM = 'flipjump/assembler/assembler.py'


def _branch(repo: Repo, types: Set[str]) -> List[ast.stmt]:
    rm = inline_pure_temps(expand_private_calls(repo, PRE, repo.func(PRE, 'resolve_macro_aux')))      # a hoisted prefix local reads like the expression it names
    chain, _ = _isinstance_chain(rm, 'op')
    b = [body for t, body in chain if t == types]
    if not b:
        raise AnalysisError(f'resolve_macro_aux: branch for {types} not found')
    return b[0]


def rule_rename_first(rep: Report, repo: Repo) -> None:
    rep.rule('C03.RENAME-FIRST', 'in the rep branch the iterator is renamed to a per-expansion unique name BEFORE parameters and local '
             'labels are substituted; the unique name is built from the expansion path, the code position, a marker no identifier '
             'can contain, and the iterator', 3)
    br = _branch(repo, {'RepCall'})
    order = []
    for st in br:
        if isinstance(st, ast.Assign) and norm(st.targets[0]) == 'op' and isinstance(st.value, ast.Call):
            order.append(dotted(st.value.func))
    rep.check(order[:2] == ['op.rename_iterator', 'op.eval_new'], 'C03.RENAME-FIRST', 'order', str(order), f'{PRE}:{br[0].lineno}',
              expected='rename_iterator, then eval_new(params_dict)')
    hyg = [st.value for st in br if isinstance(st, ast.Assign) and norm(st.targets[0]) == 'hygienic_iterator']
    alpha = identifier_alphabet(repo)
    ok = False
    txt = ''
    if hyg:
        txt = norm(hyg[0])
        fixed = fixed_text_of_fstring(hyg[0], repo, PRE)
        comps = all(x in txt for x in ('labels_prefix', 'op.code_position.short_str()', 'op.iterator_name'))
        ok = comps and any(ch not in alpha for ch in fixed.replace('---', ''))          # marker beyond the path separator
        arg = [norm(c.args[0]) for st in br for c in ast.walk(st) if isinstance(c, ast.Call) and dotted(c.func) == 'op.rename_iterator']
        ok = ok and arg == ['hygienic_iterator']
    rep.check(ok, 'C03.RENAME-FIRST', 'hygienic-name', txt[:140], f'{PRE}:{br[0].lineno}',
              expected='prefix + position + non-identifier marker + iterator name')
    rn = expand_private_calls(repo, OPS, repo.func(OPS, 'RepCall.rename_iterator'), 'RepCall', depth=2)
    d = [norm(st.value) for st in rn.body if isinstance(st, ast.Assign) and norm(st.targets[0]) == 'rename_dict']
    # constructor arguments, read through locals that are bound once
    once = {}
    for st in ast.walk(rn):
        if isinstance(st, ast.Assign) and len(st.targets) == 1 and isinstance(st.targets[0], ast.Name):
            once.setdefault(st.targets[0].id, []).append(norm(st.value))
    args = [(once[a.id][0] if isinstance(a, ast.Name) and len(once.get(a.id, [])) == 1 and a.id != 'rename_dict' else norm(a))
            for c in calls(rn) if dotted(c.func) == 'RepCall' for a in c.args]
    ok = d == ['{self.iterator_name: Expr(new_iterator_name)}'] and args[:3] == ['self.repeat_times', 'new_iterator_name', 'self.macro_name.name'] \
        and '[expr.eval_new(rename_dict) for expr in self.arguments]' in args
    rep.check(ok, 'C03.RENAME-FIRST', 'RepCall.rename_iterator', f'{d} -> RepCall({args[:4]})', f'{OPS}:{rn.lineno}',
              expected='a NEW RepCall with the new iterator and its references renamed in the arguments only')


def _picks_replacement(e: Optional[ast.expr]) -> bool:
    """`replacement if replacement is not None else self`, in either polarity of the test"""
    from ..pyfacts import cn, push_not
    if not isinstance(e, ast.IfExp):
        return False
    want = cn(ast.parse('replacement is not None', mode='eval').body)
    arms = (norm(e.body), norm(e.orelse))
    if cn(e.test) == want:
        return arms == ('replacement', 'self')
    if cn(push_not(e.test, True)) == want:
        return arms == ('self', 'replacement')
    return False


def rule_simult(rep: Report, repo: Repo) -> None:
    rep.rule('C03.SIMULT-SUBST', 'substitution is simultaneous and single-pass: a replacement taken from the dictionary is returned '
             'without being substituted again; rep arguments are instantiated with a dictionary holding only the iterator', 3)
    ev = repo.func(EXPR, 'Expr.eval_new')
    # the name branch
    ok = False
    for n in ast.walk(ev):
        if isinstance(n, ast.If) and norm(n.test) == 'isinstance(value, str)':
            body = [norm(s) for s in n.body]
            ok = len(n.body) == 2 and body[0] == 'replacement = params_dict.get(value)' and isinstance(n.body[1], ast.Return) and _picks_replacement(n.body[1].value)
    rep.check(ok, 'C03.SIMULT-SUBST', 'Expr.eval_new:name-branch', 'returns the dictionary value itself (no recursive eval_new on it)',
              f'{EXPR}:{ev.lineno}', expected='replacement returned as-is')
    # sub-expressions are substituted with the SAME dictionary (no dictionary growth on the way down)
    rec = [norm(c) for c in calls(ev) if dotted(c.func).endswith('.eval_new')]
    rep.check(rec == ['arg.eval_new(params_dict)'], 'C03.SIMULT-SUBST', 'Expr.eval_new:recursion', str(rec), f'{EXPR}:{ev.lineno}')
    ca = repo.func(OPS, 'RepCall.calculate_arguments')
    d = [norm(st.value) for st in ca.body if isinstance(st, ast.Assign) and norm(st.targets[0]) == 'iterator_dict']
    uses = [norm(c) for c in calls(ca) if dotted(c.func).endswith('.eval_new')]
    rep.check(d == ['{self.iterator_name: Expr(iterator_value)}'] and uses == ['expr.eval_new(iterator_dict)'], 'C03.SIMULT-SUBST',
              'RepCall.calculate_arguments', f'{d}; {uses}', f'{OPS}:{ca.lineno}')
    # eval_name substitutes a label name only from the dictionary of the macro being expanded
    en = repo.func(OPS, 'Label.eval_name')
    rets = [norm(r.value) for r in ast.walk(en) if isinstance(r, ast.Return)]
    rep.check(sorted(rets) == ['new_name', 'self.name'], 'C03.SIMULT-SUBST', 'Label.eval_name', str(rets), f'{OPS}:{en.lineno}')


def _expr_fields(init: ast.FunctionDef) -> List[Tuple[str, str]]:
    """[(field, 'Expr' | 'List[Expr]')] from the annotated constructor parameters stored as self.<param>."""
    out = []
    stored = {norm(st.value): norm(st.targets[0]) for st in init.body
              if isinstance(st, ast.Assign) and norm(st.targets[0]).startswith('self.')}
    for a in init.args.args[1:]:
        ann = norm(a.annotation) if a.annotation is not None else ''
        if ann in ('Expr', 'List[Expr]') and stored.get(a.arg) == f'self.{a.arg}':
            out.append((a.arg, ann))
    return out


def rule_subst_complete(rep: Report, repo: Repo) -> None:
    rep.rule('C03.SUBST-COMPLETE', 'every op class substitutes ALL of its expression operands: each return of <Op>.eval_new is either '
             'a new <Op> whose expression operands are self.<f>.eval_new(labels_dict) (element-wise for operand lists), or the '
             'shared `self` under a test that requires every substituted operand to be identical to the original; '
             'Expr.eval_new returns `self` for an operator node only when no argument changed', 9)
    tree = repo.mod(OPS)
    n_classes = 0
    for cls in [n for n in tree.body if isinstance(n, ast.ClassDef)]:
        meths = {m.name: m for m in cls.body if isinstance(m, ast.FunctionDef)}
        if 'eval_new' not in meths or '__init__' not in meths:
            continue
        n_classes += 1
        ev, init = meths['eval_new'], meths['__init__']
        # read through private helpers (a `_derive(..)` constructor helper) and literal-sequence spellings of the operand list
        ev = spread_literal_sequences(expand_private_calls(repo, OPS, ev, cls.name, depth=2))
        if not ev.args.args[1:]:
            raise AnalysisError(f'{cls.name}.eval_new has no dictionary parameter')
        dic = ev.args.args[1].arg
        fields = _expr_fields(init)
        params = [a.arg for a in init.args.args[1:]]
        if not fields:
            raise AnalysisError(f'{cls.name}: no Expr operand found in the constructor')
        want = {f: (f'self.{f}.eval_new({dic})' if kind == 'Expr' else None) for f, kind in fields}
        # locals bound to a substituted operand (single or tuple assignment)
        bound: Dict[str, str] = {}
        for st in walk_no_nested(ev):
            if isinstance(st, ast.Assign) and len(st.targets) == 1:
                t, v = st.targets[0], st.value
                pairs = list(zip(t.elts, v.elts)) if isinstance(t, ast.Tuple) and isinstance(v, ast.Tuple) and len(t.elts) == len(v.elts) else [(t, v)]
                for tt, vv in pairs:
                    if isinstance(tt, ast.Name):
                        bound[tt.id] = norm(vv)
        def is_subst(arg: ast.AST, f: str, kind: str) -> bool:
            txt = norm(arg)
            if isinstance(arg, ast.Name) and arg.id in bound:
                txt = bound[arg.id]
            if kind == 'Expr':
                return txt == want[f]
            if isinstance(arg, ast.Name) and arg.id in bound:
                try:
                    arg = ast.parse(bound[arg.id], mode='eval').body
                except SyntaxError:
                    return False
            if isinstance(arg, ast.ListComp) and len(arg.generators) == 1 and not arg.generators[0].ifs:
                g = arg.generators[0]
                return (isinstance(g.target, ast.Name) and norm(g.iter) == f'self.{f}'
                        and norm(arg.elt) == f'{g.target.id}.eval_new({dic})')
            return False
        ctor_calls = [c for c in calls(ev) if dotted(c.func) == cls.name]
        rep.check(len(ctor_calls) == 1, 'C03.SUBST-COMPLETE', f'{cls.name}.eval_new:constructs', f'{len(ctor_calls)} {cls.name}(..) calls',
                  f'{OPS}:{ev.lineno}', expected='exactly one construction of the substituted op')
        for c in ctor_calls:
            args = {params[i]: a for i, a in enumerate(c.args) if i < len(params)}
            args.update({k.arg: k.value for k in c.keywords if k.arg})
            for f, kind in fields:
                a = args.get(f)
                rep.check(a is not None and is_subst(a, f, kind), 'C03.SUBST-COMPLETE', f'{cls.name}.eval_new:{f}',
                          norm(a) if a is not None else 'missing', f'{OPS}:{c.lineno}',
                          expected=f'self.{f} substituted with {dic}')
        ctor_vars = {norm(st.targets[0]) for st in walk_no_nested(ev) if isinstance(st, ast.Assign)
                     and isinstance(st.value, ast.Call) and dotted(st.value.func) == cls.name}
        for r in [n for n in walk_no_nested(ev) if isinstance(n, ast.Return)]:
            txt = norm(r.value) if r.value is not None else 'None'
            if isinstance(r.value, ast.Call) and dotted(r.value.func) == cls.name:
                continue
            if txt in ctor_vars:
                continue
            if txt == 'self':
                # the conjunction guarding the return
                guard: Set[str] = set()
                for n in ast.walk(ev):
                    if isinstance(n, ast.If) and r in n.body:
                        conj = n.test.values if isinstance(n.test, ast.BoolOp) and isinstance(n.test.op, ast.And) else [n.test]
                        guard |= {norm(x) for x in conj}
                need = set()
                missing = []
                for f, kind in fields:
                    loc = [k for k, v in bound.items() if v == want.get(f)]
                    alts = {f'{l_} is self.{f}' for l_ in loc} | {f'self.{f} is {l_}' for l_ in loc}
                    if kind == 'Expr':
                        alts |= {f'{want[f]} is self.{f}', f'self.{f} is {want[f]}'}
                    need.add(sorted(alts)[0] if alts else f'<{f} unchanged>')
                    if kind != 'Expr' or not (alts & guard):
                        missing.append(f)
                rep.check(not missing, 'C03.SUBST-COMPLETE', f'{cls.name}.eval_new:return self', f'guard {sorted(guard)}',
                          f'{OPS}:{r.lineno}', expected=f'{sorted(need)}')
                continue
            rep.fail('C03.SUBST-COMPLETE', f'{cls.name}.eval_new:return {txt[:40]}', 'returns neither the substituted op nor self',
                     f'{OPS}:{r.lineno}')
    if n_classes < 7:
        raise AnalysisError(f'C03.SUBST-COMPLETE: only {n_classes} op classes with eval_new found (7 confirmed by hand)')
    # Expr.eval_new: `return self` on an operator node requires the unchanged flag, cleared whenever an argument changed
    ev = repo.func(EXPR, 'Expr.eval_new')
    dic = ev.args.args[1].arg
    loop = [n for n in ev.body if isinstance(n, ast.For) and isinstance(n.target, ast.Name)]
    ok = False
    if len(loop) == 1:
        lp, lv = loop[0], loop[0].target.id
        ea = [norm(s.targets[0]) for s in lp.body if isinstance(s, ast.Assign) and norm(s.value) == f'{lv}.eval_new({dic})']
        acc = [dotted(s.value.func)[:-len('.append')] for s in lp.body if isinstance(s, ast.Expr) and isinstance(s.value, ast.Call)
               and dotted(s.value.func).endswith('.append') and ea and [norm(a) for a in s.value.args] == [ea[0]]]
        from ..pyfacts import cn as _cn
        differs = {_cn(ast.parse(t_, mode='eval').body) for t_ in (f'{ea[0]} is not {lv}', f'{lv} is not {ea[0]}')} if ea else set()     # identity is symmetric
        flag = [norm(s.body[0].targets[0]) for s in lp.body if isinstance(s, ast.If) and ea and _cn(s.test) in differs
                and len(s.body) == 1 and isinstance(s.body[0], ast.Assign) and norm(s.body[0].value) == 'False' and not s.orelse]
        if len(ea) == 1 and len(acc) == 1 and len(flag) == 1:
            fl = flag[0]
            sets = sorted(norm(s.value) for s in ast.walk(ev) if isinstance(s, ast.Assign) and norm(s.targets[0]) == fl)
            init_before = any(isinstance(s, ast.Assign) and norm(s.targets[0]) == fl and norm(s.value) == 'True'
                              for s in ev.body[:ev.body.index(lp)])
            tail = [norm(s.test) for s in ev.body[ev.body.index(lp) + 1:] if isinstance(s, ast.If)
                    and any(isinstance(x, ast.Return) and norm(x.value) == 'self' for x in ast.walk(s))]
            last = ev.body[-1]
            ok = (sets == ['False', 'True'] and init_before and tail == [fl] and isinstance(last, ast.Return)
                  and norm(last.value) in (f'Expr((op, tuple({acc[0]})))',))
    rep.check(ok, 'C03.SUBST-COMPLETE', 'Expr.eval_new:operator-node', 'every argument substituted; self shared only when unchanged',
              f'{EXPR}:{ev.lineno}', expected='unchanged flag cleared on any changed argument; else Expr((op, tuple(evaluated_args)))')


def rule_rel_names(rep: Report, repo: Repo) -> None:
    rep.rule('C03.REL-NAMES', 'namespace-relative names climb any number of levels: the DOT_ID token regex (a constant) accepts k leading '
             'dots for every k (an unbounded repeat of `.` in its optional head), and the resolver drops k-1 namespace levels, rejecting '
             'only k-1 > depth - a macro body written inside nested namespaces means the same after inlining', 3)
    import re as _re
    import re._parser as _rp                                           # type: ignore[import-not-found]
    dot = repo.const(PARSER, 'dot_id_re')
    if not isinstance(dot, str):
        raise AnalysisError('dot_id_re is not a foldable string constant')
    # (a) structural: somewhere in the optional head there is an unbounded repeat whose body is the literal '.'
    def unbounded_dot(items: Any) -> bool:
        for op, av in items:
            name = str(op)
            if name in ('MAX_REPEAT', 'MIN_REPEAT'):
                lo, hi, sub = av
                if len(sub) == 1 and str(sub[0][0]) == 'LITERAL' and sub[0][1] == ord('.') and hi == _rp.MAXREPEAT and lo == 0:
                    return True
                if unbounded_dot(sub):
                    return True
            elif name == 'SUBPATTERN':
                if unbounded_dot(av[3]):
                    return True
            elif name == 'BRANCH':
                if any(unbounded_dot(b) for b in av[1]):
                    return True
        return False
    tree = _rp.parse(dot)
    rep.check(unbounded_dot(tree), 'C03.REL-NAMES', 'dot_id_re:unbounded-leading-dots', dot, f'{PARSER} dot_id_re',
              expected='an optional head containing `\\.*` (any number of leading dots)')
    # (b) the regular language of the constant: membership of the name shapes the parser resolves
    cre = _re.compile(dot)
    want_in = ['.' * k + 'a' + '.b' * j for k in range(1, 7) for j in range(0, 3)] + ['x.a', 'x.a.b', '_x1.y2']
    want_out = ['a', '.', '..', 'a.', '.1a', '']
    bad = [w for w in want_in if not cre.fullmatch(w)] + [f'!{w}' for w in want_out if cre.fullmatch(w)]
    rep.check(not bad, 'C03.REL-NAMES', 'dot_id_re:language', f'{len(want_in)} member / {len(want_out)} non-member shapes; wrong: {bad[:6]}',
              f'{PARSER} dot_id_re', expected='k leading dots (k = 1..6) + dotted identifiers are DOT_ID tokens; a bare identifier is not')
    # (c) the resolver: the rejection bound and the number of dropped levels are the same quantity
    f0 = repo.func(PARSER, 'FJParser.base_name_to_ns_full_name')
    f = inline_pure_temps(f0)          # named quantities (the dot count, the depth, the levels to climb) read as what they name
    from ..linexpr import Env, lin_show, py_ir, to_lin
    lin = lambda e: lin_show(to_lin(py_ir(e), Env({})))
    wd = [norm(st.value) for st in ast.walk(f0) if isinstance(st, ast.Assign) and norm(st.targets[0]) == 'without_dots']
    # rejection: `A > B` (or `B < A`) with A - B == num_of_dots - 1 - depth
    guards = []
    for n in ast.walk(f):
        if isinstance(n, ast.If) and isinstance(n.test, ast.Compare) and len(n.test.ops) == 1 and isinstance(n.test.ops[0], (ast.Gt, ast.Lt)):
            a, b = n.test.left, n.test.comparators[0]
            if isinstance(n.test.ops[0], ast.Lt):
                a, b = b, a
            guards.append(lin(ast.BinOp(left=a, op=ast.Sub(), right=b)))
    # dropped levels: the upper bound of the namespace slice in the returned name
    uppers = [lin(x.slice.upper) for r in ast.walk(f) if isinstance(r, ast.Return) and r.value is not None for x in ast.walk(r.value)
              if isinstance(x, ast.Subscript) and norm(x.value) == 'curr_namespace' and isinstance(x.slice, ast.Slice) and x.slice.upper is not None
              and x.slice.lower is None]
    rets = uppers
    # with k = len(base_name) - len(without_dots) leading dots:  reject iff k - 1 - depth > 0 ; keep depth - (k - 1) levels
    ok = (wd == ["base_name.lstrip('.')"] and lin(ast.parse('len(base_name) - len(without_dots) - 1 - len(curr_namespace)', mode='eval').body) in guards
          and uppers == [lin(ast.parse('len(curr_namespace) - (len(base_name) - len(without_dots)) + 1', mode='eval').body)])
    rep.check(ok, 'C03.REL-NAMES', 'resolver', f'guards {guards}; returns {rets}', f'{PARSER}:{f.lineno}',
              expected='k dots drop k-1 levels; an error only when k-1 exceeds the depth')


def synthetic_families(repo: Repo) -> List[Tuple[str, str, str, ast.AST]]:
    """(family, rel, fixed text, node) for every synthetic name that enters a dictionary shared with user identifiers."""
    out: List[Tuple[str, str, str, ast.AST]] = []
    gp = inline_pure_temps(repo.func(PRE, 'get_params_dictionary'))      # a hoisted prefix local reads like the f-string it names
    for c in calls(gp):
        if dotted(c.func) == 'Expr' and c.args and isinstance(c.args[0], ast.JoinedStr):
            out.append(('local-label', PRE, fixed_text_of_fstring(c.args[0], repo, PRE), c))
    rm = inline_pure_temps(expand_private_calls(repo, PRE, repo.func(PRE, 'resolve_macro_aux')))      # a hoisted prefix local reads like the expression it names
    for st in ast.walk(rm):
        if isinstance(st, ast.Assign) and norm(st.targets[0]) == 'hygienic_iterator':
            out.append(('rep-iterator', PRE, fixed_text_of_fstring(st.value, repo, PRE), st))
        if isinstance(st, ast.Call) and dotted(st.func) == 'preprocessor_data.insert_macro_start_label':
            out.append(('macro-start-label', PRE, fixed_text_of_fstring(st.args[0], repo, PRE), st))
    for wrel, wfn, key, node in label_table_writers(repo):
        if wfn != 'insert_label':
            out.append((f'label-table:{wfn}', wrel, fixed_text_of_fstring(key, repo, wrel), node))
    # the `$` binding
    for st in ast.walk(rm):
        if isinstance(st, ast.Assign) and isinstance(st.targets[0], ast.Subscript) and norm(st.targets[0].value) == 'params_dict':
            out.append(('dollar', PRE, fixed_text_of_fstring(st.targets[0].slice, repo, PRE), st))
    return out


def rule_fresh(rep: Report, repo: Repo) -> None:
    rep.rule('C03.FRESH-NAMES', 'every synthetic name family that enters a dictionary shared with user identifiers (parameter '
             'dictionary, label table) contains a character the lexer\'s ID / DOT_ID regexes cannot produce', 6)
    alpha = identifier_alphabet(repo)
    fams = synthetic_families(repo)
    for fam, rel, fixed, node in fams:
        bad = [ch for ch in fixed if ch not in alpha]
        rep.check(bool(bad), 'C03.FRESH-NAMES', fam, f'fixed text {fixed!r}: non-identifier characters {sorted(set(bad))}',
                  f'{rel}:{getattr(node, "lineno", 0)}', expected='at least one character outside [A-Za-z0-9_.]')
    rep.units['identifier_alphabet'] = ''.join(sorted(alpha))


def rule_prefix(rep: Report, repo: Repo) -> None:
    rep.rule('C03.PREFIX', 'the expansion-path component of a call contains the file short name, the line and the macro name; a rep '
             'call additionally its index; file short names are validated unique', 3)
    mc = _branch(repo, {'MacroCall'})
    path = [norm(st.value) for st in mc if isinstance(st, ast.Assign) and norm(st.targets[0]) == 'next_macro_path']
    rep.check(bool(path) and 'op.code_position.short_str()' in path[0] and 'op.macro_name' in path[0] and 'labels_prefix' in path[0],
              'C03.PREFIX', 'MacroCall', path[0][:140] if path else 'missing', f'{PRE}:{mc[0].lineno}')
    rc = _branch(repo, {'RepCall'})
    path = [norm(st.value) for st in rc if isinstance(st, ast.Assign) and norm(st.targets[0]) == 'next_macro_path']
    fmt = [norm(c) for st in rc for c in ast.walk(st) if isinstance(c, ast.Call) and dotted(c.func) == 'next_macro_path.format']
    rep.check(bool(path) and 'rep{{}}' in path[0] and 'op.code_position.short_str()' in path[0] and fmt == ['next_macro_path.format(i)'],
              'C03.PREFIX', 'RepCall', f'{path[0][:120] if path else None}; {fmt}', f'{PRE}:{rc[0].lineno}', expected='...:rep{i}:macro')
    ss = repo.func(OPS, 'CodePosition.short_str')
    rets = [norm(r.value) for r in ast.walk(ss) if isinstance(r, ast.Return)]
    vf = repo.func(PARSER, 'validate_current_file')
    uniq = any(isinstance(n, ast.If) and cn(n.test) == cc('curr_file_short_name in files_seen') and isinstance(n.body[0], ast.Raise) for n in ast.walk(vf))
    rep.check(rets == ["f'{self.file_short_name}:l{self.line}'"] and uniq, 'C03.PREFIX', 'position+unique-short-names',
              f'{rets}; short names unique={uniq}', f'{OPS}:{ss.lineno}')


def rule_file_state(rep: Report, repo: Repo) -> None:
    rep.rule('C03.FILE-STATE', 'between input files only the per-file parser state is reset (text, namespace stack, current file); '
             'constants, macros and the main macro\'s op list persist, so files parse as if concatenated', 2)
    lp = repo.func(PARSER, 'lex_parse_curr_file')
    globs = {n for st in ast.walk(lp) if isinstance(st, ast.Global) for n in st.names}
    resets = sorted({norm(st.targets[0]) for st in ast.walk(lp) if isinstance(st, ast.Assign)} & globs)
    rep.check(resets == ['curr_namespace', 'curr_text'], 'C03.FILE-STATE', 'lex_parse_curr_file:resets', str(resets), f'{PARSER}:{lp.lineno}',
              expected="only curr_text and curr_namespace")
    prog = repo.func(PARSER, 'FJParser.program')
    acc = [norm(st) for st in prog.body if isinstance(st, ast.AugAssign)]
    pm = repo.func(PARSER, 'parse_macro_tree')
    one_parser = sum(1 for c in calls(pm) if dotted(c.func) == 'FJParser') == 1
    rep.check(acc == ['self.macros[INITIAL_MACRO_NAME].ops += ops'] and one_parser, 'C03.FILE-STATE', 'main-macro-accumulates',
              f'{acc}; one parser object per assembly={one_parser}', f'{PARSER}:{prog.lineno}')


def rule_binders(rep: Report, repo: Repo) -> None:
    """identifiers inside macro bodies and call arguments are folded against the constants AT PARSE TIME, before any binder is known - so a
    binder spelled like a constant would be captured by it: every grammar action that introduces binders refuses such names"""
    rep.rule('C03.BINDERS', 'every grammar action that binds names for a macro body or a call - the `def` rules (parameters, local / global / '
             'extern labels) and the `rep` rules (the iterator) - refuses, with a syntax error, a name that is already a constant: directly, '
             'or through a parser method it hands the name(s) to that tests `<name> in self.consts`', 3)
    cls = next((n for n in repo.mod(PARSER).body if isinstance(n, ast.ClassDef) and n.name == 'FJParser'), None)
    if cls is None:
        raise AnalysisError('C03.BINDERS: class FJParser not found')
    methods: Dict[str, List[ast.FunctionDef]] = {}
    for m in cls.body:
        if isinstance(m, ast.FunctionDef):
            methods.setdefault(m.name, []).append(m)

    def refuses_consts(fn: ast.FunctionDef, name_text: Optional[str], seen: Tuple[str, ...] = ()) -> bool:
        """fn reports a syntax error for (an element of) `name_text` being in self.consts"""
        for i in ast.walk(fn):
            if isinstance(i, ast.If) and any(isinstance(c, ast.Call) and dotted(c.func).split('.')[-1] == 'syntax_error' for b in i.body for c in ast.walk(b)):
                for cmp_ in ast.walk(i.test):
                    if isinstance(cmp_, ast.Compare) and len(cmp_.ops) == 1 and isinstance(cmp_.ops[0], ast.In) and norm(cmp_.comparators[0]) == 'self.consts':
                        from ..pyfacts import resolve_names as _rn
                        left_e = _rn(fn, cmp_.left, allow_calls=True)          # a local that names a derived spelling reads as what it names
                        if not isinstance(left_e, (ast.Name, ast.Attribute)):
                            continue                  # a DERIVED spelling (a call, a concatenation) is not the name the expression rule folds
                        left = norm(left_e)
                        if name_text is None or left == name_text:
                            return True
                        # an element of the handed list: `for x in <name_text>: if x in self.consts`
                        for lp in ast.walk(fn):
                            if isinstance(lp, ast.For) and norm(lp.target) == left and name_text in norm(lp.iter) and any(i is x for x in ast.walk(lp)):
                                return True
        return False

    def action_refuses(fn: ast.FunctionDef, binder_texts: List[str], depth: int = 0) -> List[str]:
        missing = []
        for bt in binder_texts:
            ok = refuses_consts(fn, bt)
            for c in calls(fn):
                d = dotted(c.func)
                if d.startswith('self.') and d.split('.')[1] in methods:
                    # the whole production handed to a shared helper: the helper is read as the action
                    if depth < 2 and bt.startswith('p.') and any(isinstance(a, ast.Name) and a.id == 'p' for a in c.args):
                        for h in methods[d.split('.')[1]]:
                            ps0 = [x.arg for x in h.args.args if x.arg != 'self']
                            k0 = next(i for i, a in enumerate(c.args) if isinstance(a, ast.Name) and a.id == 'p')
                            if k0 < len(ps0) and not action_refuses(h, [ps0[k0] + bt[1:]], depth + 1):
                                ok = True
                    for k, a in enumerate(c.args):
                        if norm(a) == bt or (isinstance(a, ast.Name) and bt.endswith('.' + a.id)):
                            for h in methods[d.split('.')[1]]:
                                ps = [x.arg for x in h.args.args if x.arg != 'self']
                                if k < len(ps) and refuses_consts(h, ps[k]):
                                    ok = True
            if not ok:
                missing.append(bt)
        return missing
    n = 0
    for name, fns in methods.items():
        for fn in fns:
            rules_ = [d.args[0].value for d in fn.decorator_list if isinstance(d, ast.Call) and dotted(d.func) == '_' and d.args
                      and isinstance(d.args[0], ast.Constant) and isinstance(d.args[0].value, str)]
            for r in rules_:
                toks = r.split()
                if toks[:1] == ['REP'] and 'ID' in toks:
                    n += 1
                    miss = action_refuses(fn, ['p.ID'])
                    rep.check(not miss, 'C03.BINDERS', f'rep rule `{r[:50]}`', 'the iterator is refused when it is a constant' if not miss else
                              'the rep iterator is not compared with the constants: `i = 7` ... `rep(3, i) m i` passes 7, 7, 7 (the arguments were '
                              'folded before the iterator was known)', f'{PARSER}:{fn.lineno} FJParser.{name}', expected='syntax error for an iterator that is a constant')
    # the def side: the method that validates the declared names compares them with the constants
    vp = methods.get('validate_params', [])
    n += 1
    rep.check(bool(vp) and any(refuses_consts(h, None) for h in vp), 'C03.BINDERS', 'def rules: validate_params', 'parameters and declared labels are refused when they are constants',
              f'{PARSER}:{vp[0].lineno if vp else 0} FJParser.validate_params')
    # labels DECLARED inside macro bodies (extern `>` / global `<` labels) versus constants: the end-of-parse collision check has to see
    # the Label ops of every macro, not only those of the main macro (validate_params only knows the constants defined BEFORE the macro)
    vc = methods.get('validate_no_label_const_collisions', [])
    if not vc:
        raise AnalysisError('C03.BINDERS: FJParser.validate_no_label_const_collisions not found')
    loops_ = [lp for lp in ast.walk(vc[0]) if isinstance(lp, ast.For)]
    all_macros = any('self.macros.values()' in norm(lp.iter) or 'self.macros.items()' in norm(lp.iter) or norm(lp.iter) == 'self.macros' for lp in loops_)
    rep.check(all_macros, 'C03.BINDERS', 'label / constant collisions: macro bodies', 'every macro is walked' if all_macros else
              f'only {[norm(lp.iter) for lp in loops_]} is walked: with `x = 5`, `def m > x {{ x: ;x }}` is accepted and every `;x` means 5 although '
              f'the label x was declared (the inlined program is refused)', f'{PARSER}:{vc[0].lineno} FJParser.validate_no_label_const_collisions',
              expected='the Label ops of every macro body are compared with the constants')
    if n < 3:
        raise AnalysisError(f'C03.BINDERS: {n} binder sites found (two rep rules and validate_params expected)')


def check(rep: Report, repo: Optional[Repo] = None) -> None:
    repo = repo or Repo()
    rep.units = dict(files=[PRE, OPS, EXPR, PARSER])
    rule_rename_first(rep, repo)
    rule_simult(rep, repo)
    rule_subst_complete(rep, repo)
    rule_rel_names(rep, repo)
    rule_fresh(rep, repo)
    rule_prefix(rep, repo)
    rule_file_state(rep, repo)
    rule_binders(rep, repo)
    rep.not_decided.append('equality of the assembled image with the hand-inlined program for all call trees (value-level)')


MANIFEST = dict(
    technique='ordering/effect rules on the expander; regex-alphabet analysis of synthetic name families',
    level_text='Static, structural: the rep iterator is renamed before substitution; substitution is single-pass with the same '
               'dictionary; every synthetic name family (local labels, rep iterators, start labels, wflip labels, `$`) contains a '
               'character outside the alphabet derived from the lexer\'s identifier regexes, so it can neither capture nor be captured; '
               'expansion paths carry file/line/macro/index; per-file state only is reset between files.',
    level_note='Trusted: CPython ast and re._parser. Not decided: image equality with the hand-inlined program.',
    design_ref='DESIGN.md section 4 C03',
)
