"""C06 - writing then reading an .fjm preserves the image in every version (structural clauses)."""
from __future__ import annotations

import ast
import struct
from typing import Any, Dict, List, Optional, Set, Tuple

from .. import linexpr as lx
from ..core import AnalysisError, Report
from ..linexpr import Env, py_ir, to_lin
from ..pyfacts import Repo, clone, resolve_names, attribute_copies, cc, cn, element_rejections, inline_adjacent_temps, normalize_sorted_sweeps, eval_int_expr, membership_searches, normalize_indexed_loops, inline_module_constants, expand_private_calls, normalize_counting_whiles, inline_block, inline_predicates, canon_cond, push_not, calls, dotted, fold, norm, raise_guards, raised_class, walk_no_nested

W = 'flipjump/fjm/fjm_writer.py'
R = 'flipjump/fjm/fjm_reader.py'
K = 'flipjump/fjm/fjm_consts.py'

# constraint vocabulary over a segment record (start, length, data_start, data_length), the pool and the words
VOCAB = {
    'V1': 'segment_length > 0',
    'V2': 'segment_length >= data_length',
    'V3': 'segment_start even',
    'V4': 'segment_length even',
    'V5': 'data_length even',
    'V6': 'data_start + data_length <= len(pool)',
    'V7': 'segment address ranges disjoint',
    'V8': 'segment data ranges disjoint (relative-jump versions)',
    'V9': 'segment fields fit the u64 table fields (start + length < 2^64)',
    'V10': 'every data word in [0, 2^w)',
}


_GUARD_FORMS = {
    'V1': ['segment_length <= 0', 'segment_length < 1'],
    'V2': ['segment_length < data_length'],
    'V3': ['segment_start % 2 == 1', 'segment_start % 2 != 0', 'segment_start % 2', 'segment_start & 1', 'segment_start & 1 != 0', 'segment_start & 1 == 1'],
    'V4': ['segment_length % 2 == 1', 'segment_length % 2 != 0', 'segment_length % 2', 'segment_length & 1', 'segment_length & 1 != 0', 'segment_length & 1 == 1'],
    'V5': ['data_length % 2 != 0', 'data_length % 2 == 1', 'data_length % 2', 'data_length & 1', 'data_length & 1 != 0', 'data_length & 1 == 1'],
}
_GUARD_CANON = {v: {canon_cond(ast.parse(t, mode='eval').body) for t in forms} for v, forms in _GUARD_FORMS.items()}


def classify_guard(test: ast.expr) -> Set[str]:
    """map one raising guard to the constraint(s) whose violation it rejects. the guard is brought to negation normal form
    first, so `not (a > 0 and a >= b)` classifies like `a <= 0 or a < b`."""
    out: Set[str] = set()
    test = push_not(test)
    parts: List[ast.expr] = []
    def split(x: ast.expr) -> None:
        if isinstance(x, ast.BoolOp) and isinstance(x.op, ast.Or):
            for v in x.values:
                split(v)
        else:
            parts.append(x)
    split(test)
    for p in parts:
        c = canon_cond(p)
        t = norm(p).replace(' ', '')
        hit = [v for v, forms in _GUARD_CANON.items() if c in forms]
        if hit:
            out.update(hit)
        elif 'data_start' in t and 'data_length' in t and 'len(' in t and ('>' in t or '<' in t):
            out.add('V6')
        elif ('segment_start' in t and 'segment_length' in t and ('1<<64' in t or '2**64' in t)):
            out.add('V9')
    return out


def _reader_init_memory(repo: Repo) -> ast.FunctionDef:
    """Reader._init_memory with its private helper methods expanded in place and counting `while` loops read as `for`."""
    return normalize_counting_whiles(expand_private_calls(repo, R, repo.func(R, 'Reader._init_memory'), 'Reader'))       # type: ignore[return-value]


def reljump_writer(repo: Repo) -> str:
    """the Writer method that rewrites the data pool in place (the relative-jump transform): the private method called from
    add_segment that stores into self.data[...] - found by what it does, so a rename changes nothing."""
    add = repo.func(W, 'Writer.add_segment')
    cands = []
    for c in calls(add):
        d = dotted(c.func)
        if d.startswith('self._') and repo.has_func(W, f'Writer.{d.split(".")[1]}'):
            f = repo.func(W, f'Writer.{d.split(".")[1]}')
            if any(isinstance(n, (ast.Assign, ast.AugAssign)) and isinstance((n.targets[0] if isinstance(n, ast.Assign) else n.target), ast.Subscript)
                   and norm((n.targets[0] if isinstance(n, ast.Assign) else n.target).value) == 'self.data' for n in ast.walk(f)):
                cands.append(f'Writer.{d.split(".")[1]}')
    if len(set(cands)) != 1:
        raise AnalysisError(f'Writer.add_segment: expected one in-place rewriter of self.data among its private callees, found {sorted(set(cands))}')
    return cands[0]


def rule_formats(rep: Report, repo: Repo) -> None:
    rep.rule('C06.FORMATS', 'writer and reader take the header/extension/segment struct formats from fjm_consts (no local '
             'format literal), the _size constants equal struct.calcsize of the formats, both word-code maps are equal, '
             'cover the supported widths with w/8-byte unsigned codes, and everything is little-endian', 10)
    fmts = {n: repo.const(K, n) for n in ('_header_base_format', '_header_extension_format', '_segment_format')}
    sizes = {n: repo.const(K, n) for n in ('_header_base_size', '_header_extension_size', '_segment_size')}
    for f, s in zip(fmts, sizes):
        rep.check(struct.calcsize(fmts[f]) == sizes[s] and fmts[f].startswith('<'), 'C06.FORMATS', f'consts:{f}',
                  f'{fmts[f]!r}: calcsize {struct.calcsize(fmts[f])} vs {s}={sizes[s]}', K)
    def expand(fmt: Any) -> str:
        # a struct format with repeat counts written out ('<2H2Q' is '<HHQQ'); 's' / 'p' counts are lengths and stay
        import re as _re
        if not isinstance(fmt, str):
            return '?'
        head = fmt[:1] if fmt[:1] in '<>=!@' else ''
        out = head
        for cnt, code in _re.findall(r'(\d*)([a-zA-Z?])', fmt[len(head):].replace(' ', '')):
            out += (cnt + code) if code in 'sp' else code * (int(cnt) if cnt else 1)
        return out
    rep.check(expand(fmts['_header_base_format']) == '<HHQQ' and expand(fmts['_header_extension_format']) == '<QL'
              and expand(fmts['_segment_format']) == '<QQQQ', 'C06.FORMATS', 'consts:documented-layout', str(fmts), K,
              expected='u16 magic, u16 width, u64 version, u64 #segments / u64 flags, u32 reserved / 4 x u64')
    for rel, side, fname in ((W, 'writer', 'pack'), (R, 'reader', 'unpack')):
        for c in [c for c in calls(repo.mod(rel)) if dotted(c.func) in (fname, f'struct.{fname}')]:
            a0 = c.args[0]
            ok = isinstance(a0, ast.Name) and a0.id in fmts
            how = f'constant {norm(a0)}'
            if not ok and isinstance(a0, ast.Name):
                # a format handed to a private read / write helper as a parameter: every call of the helper passes one of the constants
                encl = c
                while encl is not None and not isinstance(encl, (ast.FunctionDef, ast.AsyncFunctionDef)):
                    encl = getattr(encl, '_parent', None)
                if encl is not None and encl.name.startswith('_') and a0.id in [a.arg for a in encl.args.args]:
                    idx = [a.arg for a in encl.args.args if a.arg != 'self'].index(a0.id)
                    sites = [k for k in calls(repo.mod(rel)) if dotted(k.func).split('.')[-1] == encl.name]
                    passed = [k.args[idx] if idx < len(k.args) else next((kw.value for kw in k.keywords if kw.arg == a0.id), None) for k in sites]
                    ok = bool(sites) and all(isinstance(x, ast.Name) and x.id in fmts for x in passed)
                    how = f'parameter {a0.id} of {encl.name}: every call passes {sorted({norm(x) for x in passed if x is not None})}'
            if not ok:
                # the word format:  '<' + {8:'B',...}[w]   or  f'<{n}{word_format}'
                txt = norm(a0)
                ok = ('read_tag' in txt or 'word_format' in txt) and txt.count("'<") <= 1
                how = f'word format {txt}'
            rep.check(ok, 'C06.FORMATS', f'{side}:{fname}({norm(a0)[:30]})', how, f'{rel}:{c.lineno}',
                      expected='format imported from fjm_consts, or the per-width word code')
    from ..wordcodec import word_codec, codec_ok
    sup = repo.const(K, 'SUPPORTED_MEMORY_WIDTHS')
    tabs = {}
    for rel, fn in ((R, 'Reader._read_decompressed_data'), (W, 'Writer.write_to_file')):
        f = expand_private_calls(repo, rel, repo.func(rel, fn), fn.split('.')[0], depth=2)        # extracted pack / unpack helpers read in place
        wc = word_codec(f, sup)             # struct code per width, or int.from_bytes / to_bytes with a width-derived byte count
        if wc is None:
            raise AnalysisError(f'{fn}: word codec missing')
        tabs[rel] = wc
        rep.check(all(v[2] == 'little' for v in wc[0].values()), 'C06.FORMATS', f'{fn}:little-endian', f'word format: {wc[1]}', f'{rel}:{f.lineno}')
    ok = tabs[R][0] == tabs[W][0] and codec_ok(tabs[R][0], sup)
    rep.check(ok, 'C06.FORMATS', 'word-codes', f'reader {tabs[R][1]} writer {tabs[W][1]}', W, expected='equal, unsigned, w/8 bytes each')


def rule_fields(rep: Report, repo: Repo) -> None:
    rep.rule('C06.FIELDS', 'the field roles are packed and destructured in the same order: (magic, width, version, '
             '#segments) / (flags, reserved) / (start, length, data_start, data_length)', 4)
    wf = expand_private_calls(repo, W, repo.func(W, 'Writer.write_to_file'), 'Writer', depth=2)
    packs = {norm(c.args[0]): [norm(a) for a in c.args[1:]] for c in calls(wf) if dotted(c.func) == 'pack' and isinstance(c.args[0], ast.Name)}
    rep.check(packs.get('_header_base_format') == ['FJ_MAGIC', 'self.word_size', 'self.version.value', 'len(self.segments)'],
              'C06.FIELDS', 'writer:header', str(packs.get('_header_base_format')), f'{W}:{wf.lineno}')
    rep.check(packs.get('_header_extension_format') == ['self.flags', 'self.reserved'], 'C06.FIELDS', 'writer:extension',
              str(packs.get('_header_extension_format')), f'{W}:{wf.lineno}')
    rh = inline_adjacent_temps(expand_private_calls(repo, R, repo.func(R, 'Reader._init_header_fields'), 'Reader'))        # an extracted `_read_struct` helper reads in place
    copies = attribute_copies(rh)            # a field unpacked into a local that is only copied to self.<field> reads as that attribute
    tg = {}
    for st in ast.walk(rh):
        if isinstance(st, ast.Assign) and isinstance(st.value, ast.Call) and dotted(st.value.func) == 'unpack':
            tgts = st.targets[0].elts if isinstance(st.targets[0], ast.Tuple) else [st.targets[0]]
            tg[norm(st.value.args[0])] = [copies.get(norm(e), norm(e)) for e in tgts]
    rep.check(tg.get('_header_base_format') == ['self.magic', 'self.memory_width', 'version', 'self.segment_num']
              and tg.get('_header_extension_format') == ['self.flags', 'self.reserved'], 'C06.FIELDS', 'reader:header+extension',
              str(tg), f'{R}:{rh.lineno}')
    # segment record order: appended tuple in add_segment == loop target in _init_memory == pack(*segment)
    add = repo.func(W, 'Writer.add_segment')
    app = [norm(c.args[0]) for c in calls(add) if dotted(c.func) == 'self.segments.append']
    im = _reader_init_memory(repo)
    loop = [norm(n.target) for n in ast.walk(im) if isinstance(n, ast.For) and norm(n.iter) == 'segments']
    star = packs.get('_segment_format')
    want = '(segment_start, segment_length, data_start, data_length)'
    rep.check(app == [want] and loop == [want] and star == ['*segment'], 'C06.FIELDS', 'segment-record',
              f'writer appends {app}, packs {star}; reader iterates {loop}', f'{W}:{add.lineno}', expected=want)


def rule_version_gates(rep: Report, repo: Repo) -> None:
    rep.rule('C06.VERSION-GATES', 'extension header, relative-jump transform and compression are gated by the same version '
             'sets on both sides', 4)
    REL = "self.version in (FJMVersion.RelativeJumpVersion, FJMVersion.CompressedVersion)"
    def tests(rel: str, fn: str) -> List[str]:
        # a private predicate method (`self._is_relative_jumps_version()`) stands for the expression it returns, a local that names
        # the condition (`jumps_are_relative = self.version in (..)`) for the condition, a private tuple constant of this module or
        # of the shared constants module for its members
        from ..pyfacts import named_predicate
        fx = expand_private_calls(repo, rel, repo.func(rel, fn), fn.split('.')[0] if '.' in fn else None, depth=2)
        out_ = []
        for n in ast.walk(fx):
            if isinstance(n, ast.If):
                e_ = inline_predicates(repo, rel, fn.split('.')[0] if '.' in fn else None, named_predicate(fx, n.test))
                e_ = inline_module_constants(repo, 'flipjump/fjm/fjm_consts.py', inline_module_constants(repo, rel, e_))
                out_.append(norm(e_))
        return out_
    # the extension header is packed / unpacked exactly when the version is known to differ from Base - whichever branch,
    # comparison direction or nesting spells the gate (facts dominating the pack / unpack call)
    from ..excflow import GuardFacts, dominating_guards
    wfx = expand_private_calls(repo, W, repo.func(W, 'Writer.write_to_file'), 'Writer', depth=2)
    rhx = expand_private_calls(repo, R, repo.func(R, 'Reader._init_header_fields'), 'Reader', depth=2)
    def ext_sites(fn: ast.AST, fname: str) -> List[ast.Call]:
        return [c for c in ast.walk(fn) if isinstance(c, ast.Call) and dotted(c.func) == fname and c.args and norm(c.args[0]) == '_header_extension_format']
    w_sites, r_sites = ext_sites(wfx, 'pack'), ext_sites(rhx, 'unpack')
    w_ext = [GuardFacts(dominating_guards(c)).get('self.version == FJMVersion.BaseVersion') for c in w_sites]
    r_ext = [GuardFacts(dominating_guards(c)).get('self.version == FJMVersion.BaseVersion') for c in r_sites]
    rep.check(w_ext == [False] and r_ext == [False], 'C06.VERSION-GATES', 'extension-header', f'writer packs it under version==Base known {w_ext}; '
              f'reader unpacks it under version==Base known {r_ext}', W, expected='written iff version != Base; read iff version != Base')
    # the reader's Base branch sets the defaults instead
    dflt = [st for st in ast.walk(rhx) if isinstance(st, ast.Assign) and any('self.flags' in norm(t) for t in st.targets) and not
            any(isinstance(c, ast.Call) and dotted(c.func) == 'unpack' for c in ast.walk(st.value))]
    ok = bool(dflt) and all(GuardFacts(dominating_guards(st)).get('self.version == FJMVersion.BaseVersion') is True for st in dflt)
    rep.check(ok, 'C06.VERSION-GATES', 'reader:extension-branch', 'Base -> defaults, else unpack', f'{R}:{rhx.lineno}')
    # version tests of add_segment and of the validation helpers it goes through (whatever they are called)
    w_rel = [t for q in ['Writer.add_segment'] + [f'Writer.{v}' for v in sorted(writer_validator_calls(repo, 'Writer.add_segment'))
                                                  if repo.has_func(W, f'Writer.{v}')]
             for t in tests(W, q) if 'RelativeJump' in t]
    r_rel = [t for t in tests(R, 'Reader._init_memory') if 'RelativeJump' in t]
    rep.check(bool(w_rel) and set(w_rel) == {REL} and r_rel == [REL], 'C06.VERSION-GATES', 'relative-jump', f'writer {w_rel} reader {r_rel}', W, expected=REL)
    w_c = [t for t in tests(W, 'Writer.write_to_file') if 'Compressed' in t]
    r_c = [t for t in tests(R, 'Reader._read_decompressed_data') if 'Compressed' in t]
    rep.check(w_c == r_c == ['FJMVersion.CompressedVersion == self.version'], 'C06.VERSION-GATES', 'compression',
              f'writer {w_c} reader {r_c}', W)


def rule_reljump(rep: Report, repo: Repo) -> None:
    rep.rule('C06.RELJUMP-INVERSE', 'the relative-jump encode and decode are syntactic inverses modulo 2^w: same index set '
             '(odd k below the even data length), same offset (segment_start + k) * w with opposite signs, same mask', 5)
    wf = normalize_counting_whiles(repo.func(W, reljump_writer(repo)))
    loop = [n for n in ast.walk(wf) if isinstance(n, ast.For)][0]
    # a second spelling of the same walk: `for t, x in enumerate(pool[B + 1 : B + N : 2])` with the pool index written as B + 2t + 1 -
    # rewritten here, syntactically, into the indexed form the clauses below read (k = 2t + 1 is odd and runs over range(1, N, 2))
    it0 = loop.iter
    if isinstance(it0, ast.Call) and dotted(it0.func) == 'enumerate' and len(it0.args) == 1 and isinstance(loop.target, ast.Tuple) and len(loop.target.elts) == 2 \
            and all(isinstance(e_, ast.Name) for e_ in loop.target.elts):
        sl = resolve_names(wf, it0.args[0])
        tname, xname = loop.target.elts[0].id, loop.target.elts[1].id          # type: ignore[attr-defined]
        if isinstance(sl, ast.Subscript) and isinstance(sl.slice, ast.Slice) and sl.slice.lower is not None and sl.slice.upper is not None \
                and isinstance(sl.slice.step, ast.Constant) and sl.slice.step.value == 2:
            lo_l = to_lin(py_ir(sl.slice.lower), Env({}))
            hi_l = to_lin(py_ir(sl.slice.upper), Env({}))
            base_l = {k_: v_ for k_, v_ in lo_l.items() if k_ != '' and hi_l.get(k_) == v_}
            lo_c = {k_: v_ for k_, v_ in lx.lin_add(lo_l, base_l, -1).items() if v_}
            hi_rest = {k_: v_ for k_, v_ in lx.lin_add(hi_l, base_l, -1).items() if v_}
            if lo_c == {'': 1} and len(base_l) == 1 and list(base_l.values()) == [1] and len(hi_rest) == 1 and list(hi_rest.values()) == [1] and '' not in hi_rest:
                bname, nname = next(iter(base_l)), next(iter(hi_rest))

                class _K(ast.NodeTransformer):          # t -> (i - 1) // 2 is avoided: 2*t + 1 (in any spelling that is linear) reads as i
                    def visit_Name(self, node: ast.Name) -> ast.AST:
                        if node.id == xname and isinstance(node.ctx, ast.Load):
                            return ast.parse(f'{norm(sl.value)}[{bname} + i]', mode='eval').body
                        return node
                new_body = []
                for st_ in inline_block(loop.body):
                    st2 = _K().visit(clone(st_))
                    # 2*t + 1 -> i wherever it appears as a linear form of t
                    class _T(ast.NodeTransformer):
                        def generic_visit(self, node: ast.AST) -> ast.AST:
                            node = super().generic_visit(node)
                            if isinstance(node, ast.BinOp):
                                try:
                                    lf = {k_: v_ for k_, v_ in to_lin(py_ir(node), Env({})).items() if v_}
                                except Exception:          # noqa: BLE001
                                    return node
                                if lf.get(tname) == 2 and lf.get('', 0) % 2 == 1:
                                    rest = dict(lf); rest.pop(tname); rest[''] = rest.get('', 0) - 1
                                    rest = {k_: v_ for k_, v_ in rest.items() if v_}
                                    txt = ' + '.join([f'{v_}*{k_}' if v_ != 1 else k_ for k_, v_ in rest.items() if k_ != ''] + ([str(rest[''])] if rest.get('') else []) + ['i'])
                                    return ast.parse(txt, mode='eval').body
                            return node
                    new_body.append(ast.fix_missing_locations(_T().visit(st2)))
                if not any(isinstance(x_, ast.Name) and x_.id == tname for b_ in new_body for x_ in ast.walk(b_)):
                    loop = ast.For(target=ast.Name(id='i', ctx=ast.Store()), iter=ast.parse(f'range(1, {nname}, 2)', mode='eval').body, body=new_body, orelse=[])
                    ast.fix_missing_locations(loop)
    wr = norm(loop.iter)
    wbody = inline_block(loop.body)              # named temporaries of the loop body are substituted
    st = wbody[0]
    wenv = Env({'self.word_size': {'w': 1}, 'i': ('sym', 'k'), 'word_mask': py_ir(ast.parse('(1 << w) - 1', mode='eval').body)})
    if not (isinstance(st, ast.Assign) and isinstance(st.targets[0], ast.Subscript)):
        raise AnalysisError('_update_to_relative_jumps: unexpected loop body')
    w_idx = lx.lin_show(to_lin(py_ir(st.targets[0].slice), wenv))
    w_val = py_ir(resolve_names(wf, st.value, keep=('i',)))          # the loop index stays the loop index (also when the walk was rewritten above)
    im = _reader_init_memory(repo)
    rl = [n for n in ast.walk(im) if isinstance(n, ast.For) and norm(n.iter).startswith('range(0, data_length')]
    if not rl:
        raise AnalysisError('_init_memory: relative-jump loop not found')
    rr = norm(rl[0].iter)
    renv = Env({'self.memory_width': {'w': 1}, 'i': ('bin', '-', ('sym', 'k'), ('num', 1)),
                'word': py_ir(ast.parse('(1 << w) - 1', mode='eval').body)})
    rbody = inline_block(rl[0].body)
    jump_st = [s for s in rbody if isinstance(s, ast.Assign) and isinstance(s.value, ast.BinOp)]
    flip_st = [s for s in rbody if isinstance(s, ast.Assign) and not isinstance(s.value, ast.BinOp)]
    if len(jump_st) != 1 or len(flip_st) != 1:
        raise AnalysisError('_init_memory: relative-jump loop body shape changed')
    # a mask / offset named by a local of the function (inside or before the loop) reads as what it names
    r_val = py_ir(resolve_names(im, jump_st[0].value))
    r_dst = lx.lin_show(to_lin(py_ir(jump_st[0].targets[0].slice), renv))
    site = f'{R}:{rl[0].lineno} Reader._init_memory'
    rep.check(wr == 'range(1, data_length, 2)' and rr == 'range(0, data_length, 2)', 'C06.RELJUMP-INVERSE', 'index-sets',
              f'writer {wr}; reader {rr} (+1)', site, expected='odd k in [0, data_length)')
    even = any(norm(t).replace(' ', '') in ('data_length%2!=0', 'data_length%2==1') and raised_class(r) == 'FlipJumpReadFjmException'
               for t, r, _ in raise_guards(im))
    rep.check(even, 'C06.RELJUMP-INVERSE', 'reader:even-data-length', 'odd data lengths are rejected before the loop', site)

    def decompose(v: lx.IR, env: Env) -> Tuple[str, str, str, str]:
        """(value & mask) with value = data[idx] +/- offset -> (idx, sign, offset, mask)"""
        if not (v[0] == 'bin' and v[1] == '&'):
            return ('?', '?', '?', '?')
        body, mask = v[2], v[3]
        if body[0] != 'bin' or body[1] not in ('+', '-'):
            return ('?', '?', '?', '?')
        src, off = body[2], body[3]
        idx = lx.lin_show(to_lin(src[2], env)) if src[0] == 'idx' else '?'
        return idx, body[1], lx.canon(off, env), lx.canon(mask, env)
    wd, rd = decompose(w_val, wenv), decompose(r_val, renv)
    rep.check(wd[0] == rd[0] == w_idx == 'data_start + k', 'C06.RELJUMP-INVERSE', 'same-pool-index',
              f'writer reads/writes pool[{wd[0]}] / [{w_idx}], reader reads pool[{rd[0]}]', site, expected='data_start + k')
    rep.check(wd[1] == '-' and rd[1] == '+' and wd[2] == rd[2] == '(k + segment_start)*(w)', 'C06.RELJUMP-INVERSE', 'offset',
              f'writer {wd[1]}{wd[2]}; reader {rd[1]}{rd[2]}', site, expected='-(segment_start + k)*w / +(segment_start + k)*w')
    rep.check(wd[3] == rd[3] == '(1)<<(w) - 1' and r_dst == 'k + segment_start', 'C06.RELJUMP-INVERSE', 'mask+destination',
              f'masks {wd[3]} / {rd[3]}; reader stores at memory[{r_dst}]', site)
    # the flip word is copied unchanged at the even index
    fenv = Env({'i': ('sym', 'k')})
    rep.check(norm(flip_st[0].targets[0]) == 'self.memory[segment_start + i]' and norm(flip_st[0].value) == 'data[data_start + i]',
              'C06.RELJUMP-INVERSE', 'flip-word-copied', norm(flip_st[0]), site)


def rule_zerofill(rep: Report, repo: Repo) -> None:
    rep.rule('C06.ZEROFILL', 'both zero-tail branches cover [data_length, segment_length) relative to segment_start; the lazy '
             'ranges are consulted by the word reader before garbage is declared; the plain copy covers [0, data_length)', 4)
    from ..pyfacts import spread_literal_sequences as _sls
    im = _sls(_reader_init_memory(repo))          # `a, b = X, Y` reads as two assignments; named ends of the tail read through
    site = f'{R}:{im.lineno} Reader._init_memory'
    # all three facts are FOLDED on a grid of (segment_start, data_length, segment_length) after reading named sub-expressions
    # through (zeros_start / zeros_end / tail_length ...): what matters is which addresses are zeroed, not how they are spelled
    grid = [(0, 0, 4), (10, 2, 6), (3, 5, 5), (7, 1, 2), (100, 4, 10)]

    def ev(e: ast.expr, env: Dict[str, int]) -> Optional[int]:
        try:
            return eval_int_expr(resolve_names(im, e), env)
        except AnalysisError:
            return None
    dense_txt, ok_dense = 'missing', False
    for n in ast.walk(im):
        if not (isinstance(n, ast.For) and isinstance(n.target, ast.Name) and isinstance(n.iter, ast.Call) and dotted(n.iter.func) == 'range'
                and len(n.body) == 1 and isinstance(n.body[0], ast.Assign) and len(n.body[0].targets) == 1
                and isinstance(n.body[0].targets[0], ast.Subscript) and norm(n.body[0].targets[0].value) == 'self.memory'
                and norm(n.body[0].value) == '0'):
            continue
        dense_txt = norm(n).split('\n')[0]
        good = True
        for ss, dl, sl in grid:
            env = {'segment_start': ss, 'data_length': dl, 'segment_length': sl}
            args = [ev(a, env) for a in n.iter.args]
            if any(a is None for a in args):
                good = False
                break
            addrs = [ev(n.body[0].targets[0].slice, {**env, n.target.id: k}) for k in range(*args)]      # type: ignore[arg-type]
            good = good and addrs == list(range(ss + dl, ss + sl))
        ok_dense = ok_dense or good
    # the same fill as one bulk update: self.memory.update(dict.fromkeys(range(A, B), 0))  /  update({a: 0 for a in range(A, B)})
    for c in calls(im):
        if dotted(c.func) == 'self.memory.update' and len(c.args) == 1 and not ok_dense:
            a0 = resolve_names(im, c.args[0], allow_calls=True)
            rng = None
            if isinstance(a0, ast.Call) and dotted(a0.func) == 'dict.fromkeys' and len(a0.args) == 2 and norm(a0.args[1]) == '0' and isinstance(a0.args[0], ast.Call) \
                    and dotted(a0.args[0].func) == 'range':
                rng = a0.args[0]
            elif isinstance(a0, ast.DictComp) and len(a0.generators) == 1 and not a0.generators[0].ifs and norm(a0.value) == '0' \
                    and norm(a0.key) == norm(a0.generators[0].target) and isinstance(a0.generators[0].iter, ast.Call) and dotted(a0.generators[0].iter.func) == 'range':
                rng = a0.generators[0].iter
            if rng is not None:
                dense_txt = norm(c)[:100]
                good = True
                for ss, dl, sl in grid:
                    env = {'segment_start': ss, 'data_length': dl, 'segment_length': sl}
                    args = [ev(a, env) for a in rng.args]
                    good = good and all(a is not None for a in args) and list(range(*args)) == list(range(ss + dl, ss + sl))     # type: ignore[arg-type]
                ok_dense = ok_dense or good
    rep.check(ok_dense, 'C06.ZEROFILL', 'dense', dense_txt, site, expected='memory[a] = 0 for a in [segment_start + data_length, segment_start + segment_length)')
    lazy_calls = [c for c in calls(im) if dotted(c.func) == 'self.zeros_boundaries.append' and len(c.args) == 1]
    lazy = [norm(c.args[0]) for c in lazy_calls]
    ok_lazy = len(lazy_calls) == 1
    if ok_lazy:
        a0 = resolve_names(im, lazy_calls[0].args[0])
        ok_lazy = isinstance(a0, ast.Tuple) and len(a0.elts) == 2 and all(
            (ev(a0.elts[0], {'segment_start': ss, 'data_length': dl, 'segment_length': sl}), ev(a0.elts[1], {'segment_start': ss, 'data_length': dl, 'segment_length': sl}))
            == (ss + dl, ss + sl) for ss, dl, sl in grid)
    rep.check(ok_lazy, 'C06.ZEROFILL', 'lazy', str(lazy), site, expected='one range (segment_start + data_length, segment_start + segment_length)')
    tests = [n.test for n in ast.walk(im) if isinstance(n, ast.If) and 'segment_length' in norm(resolve_names(im, n.test))]
    outer = [norm(t) for t in tests]

    def folds_to(t: ast.expr, want: Any, cases: List[Tuple[int, int, int]], thr: int) -> bool:
        for ss, dl, sl in cases:
            v = ev(t, {'segment_start': ss, 'data_length': dl, 'segment_length': sl, '_reserved_dict_threshold': thr})
            if v is None or bool(v) != want(ss, dl, sl, thr):
                return False
        return True
    has_tail = any(folds_to(t, lambda ss, dl, sl, thr: sl > dl, [(0, 4, 4), (0, 3, 4), (6, 0, 2), (6, 2, 2), (1, 5, 9)], 5) for t in tests)
    has_thr = any('_reserved_dict_threshold' in norm(resolve_names(im, t)) and folds_to(
        t, lambda ss, dl, sl, thr: sl - dl < thr, [(0, 0, 4), (0, 0, 5), (0, 0, 6), (9, 3, 7), (9, 3, 8), (9, 3, 9)], 5) for t in tests)
    rep.check(has_tail and has_thr, 'C06.ZEROFILL', 'branch-tests', str(outer), site, expected='segment_length > data_length; tail length < _reserved_dict_threshold chooses the dense fill')
    # the plain copy, in the indexing or the enumerate-over-a-slice spelling: folded on a grid, word k of the segment's data goes
    # to address segment_start + k, for k in [0, data_length)
    imn = normalize_indexed_loops(im)
    plain_ok, plain_txt = False, 'missing'
    for n in ast.walk(imn):
        if not (isinstance(n, ast.For) and isinstance(n.target, ast.Name) and isinstance(n.iter, ast.Call) and dotted(n.iter.func) == 'range'
                and len(n.body) == 1 and isinstance(n.body[0], ast.Assign) and isinstance(n.body[0].targets[0], ast.Subscript)
                and norm(n.body[0].targets[0].value) == 'self.memory' and isinstance(n.body[0].value, ast.Subscript)
                and norm(n.body[0].value.value) == 'data'):
            continue
        plain_txt = norm(n).replace('\n', ' ')[:120]
        good = True
        for ss, ds, dl in ((0, 0, 4), (10, 6, 2), (3, 8, 5)):
            env = {'segment_start': ss, 'data_start': ds, 'data_length': dl}
            ks = list(range(*[eval_int_expr(a, env) for a in n.iter.args]))
            pairs = [(eval_int_expr(n.body[0].targets[0].slice, {**env, n.target.id: k}), eval_int_expr(n.body[0].value.slice, {**env, n.target.id: k})) for k in ks]
            good = good and pairs == [(ss + k, ds + k) for k in range(dl)]
        plain_ok = plain_ok or good
    rep.check(plain_ok, 'C06.ZEROFILL', 'plain-copy', plain_txt, site, expected='memory[segment_start + k] = data[data_start + k] for k < data_length')
    from ..pyfacts import search_helpers_as_any
    gm = search_helpers_as_any(repo, R, 'Reader', repo.func(R, 'Reader._get_memory_word'))       # an extracted range search reads as the loop
    searches = membership_searches(gm, 'self.zeros_boundaries')
    ok = len(searches) == 1 and len(searches[0][3]) == 2 and cn(searches[0][0]) == cc(f'{searches[0][3][0]} <= word_address < {searches[0][3][1]}')
    class _L:        # the old name, kept for the message below
        lineno = searches[0][2] if searches else 0
    loops = [_L]
    # ... and it comes before the garbage handling
    first_garbage = min([n.lineno for n in ast.walk(gm) if isinstance(n, ast.Call) and dotted(n.func) == '_new_garbage_val'] or [0])
    rep.check(ok and loops[0].lineno < first_garbage, 'C06.ZEROFILL', '_get_memory_word:lazy-lookup',
              'lazy ranges checked before garbage', f'{R}:{gm.lineno}')


def writer_validator_calls(repo: Repo, fn_q: str, seen: Optional[Set[str]] = None) -> Dict[str, ast.Call]:
    """self._validate_* methods called from a Writer method, followed through intermediate _validate_* helpers (if any):
    name -> the call node inside fn_q through which it is reached."""
    out: Dict[str, ast.Call] = {}
    seen = seen or set()
    fn = repo.func(W, fn_q)
    for c in calls(fn):
        d = dotted(c.func)
        if d.startswith('self._validate') and d not in seen:
            name = d.split('.', 1)[1]
            out[name] = c
            if repo.has_func(W, f'Writer.{name}'):
                for sub in writer_validator_calls(repo, f'Writer.{name}', seen | {d}):
                    out.setdefault(sub, c)
    return out


def rule_lzma(rep: Report, repo: Repo) -> None:
    rep.rule('C06.LZMA', 'both sides use the raw format constant and an LZMA2 filter chain from fjm_consts; the decoder is given a '
             'dictionary at least as large as the encoder\'s for every preset the Writer accepts (raw streams do not record it)', 4)
    cw = [c for c in calls(repo.func(W, 'Writer._compress_data')) if dotted(c.func) == 'lzma.compress']
    cr = [c for c in calls(repo.func(R, 'Reader._decompress_data')) if dotted(c.func) == 'lzma.decompress']
    wfn_, rfn_ = repo.func(W, 'Writer._compress_data'), repo.func(R, 'Reader._decompress_data')
    def kw(c: ast.Call) -> Dict[str, str]:          # keyword values read through single-definition locals (also call-valued ones)
        owner = wfn_ if any(x is c for x in ast.walk(wfn_)) else rfn_
        return {k.arg: norm(resolve_names(owner, k.value, allow_calls=True)) for k in c.keywords if k.arg}
    rep.check(bool(cw) and kw(cw[0]).get('format') == '_LZMA_FORMAT' and kw(cw[0]).get('filters', '').startswith('_lzma_compression_filters('),
              'C06.LZMA', 'writer', str(kw(cw[0]) if cw else None), W)
    rep.check(bool(cr) and kw(cr[0]) == {'format': '_LZMA_FORMAT', 'filters': '_LZMA_DECOMPRESSION_FILTERS'}, 'C06.LZMA', 'reader',
              str(kw(cr[0]) if cr else None), R)
    fmt = repo.const(K, '_LZMA_FORMAT')
    dec = repo.const(K, '_LZMA_DECOMPRESSION_FILTERS')
    cf = repo.func(K, '_lzma_compression_filters')
    ret = [n for n in ast.walk(cf) if isinstance(n, ast.Return)][0]
    comp_id = [norm(v) for d in ast.walk(ret) if isinstance(d, ast.Dict) for k, v in zip(d.keys, d.values) if isinstance(k, ast.Constant) and k.value == 'id']
    dec_ids = [d.get('id') for d in dec] if isinstance(dec, list) and all(isinstance(d, dict) for d in dec) else None
    rep.check(fmt == ('lzma.FORMAT_RAW',) and dec_ids == [('lzma.FILTER_LZMA2',)] and comp_id == ['lzma.FILTER_LZMA2'],
              'C06.LZMA', 'consts', f'format {fmt}, decompress {dec}, compress id {comp_id}', K)
    # a RAW stream carries no dictionary size: the decoder's must cover the encoder's for every preset the Writer accepts.
    # reference (liblzma presets 0..9, MiB): 0.25 1 2 4 4 8 8 16 32 64; the filter default is preset 6.
    PRESET_DICT = [1 << 18, 1 << 20, 1 << 21, 1 << 22, 1 << 22, 1 << 23, 1 << 23, 1 << 24, 1 << 25, 1 << 26]
    wi = repo.func(W, 'Writer.__init__')
    allowed = None
    from ..pyfacts import push_not
    for test, r, _outer in raise_guards(wi):
        if raised_class(r) != 'FlipJumpWriteFjmException':
            continue
        # any conjunct of the (negation-normalised) raise condition of the form `lzma_preset not in range(<literals>)`
        nn = push_not(test)
        conj = list(nn.values) if isinstance(nn, ast.BoolOp) and isinstance(nn.op, ast.And) else [nn]
        for cj in conj:
            if isinstance(cj, ast.Compare) and len(cj.ops) == 1 and isinstance(cj.ops[0], ast.NotIn) and norm(cj.left) == 'lzma_preset' \
                    and isinstance(cj.comparators[0], ast.Call) and dotted(cj.comparators[0].func) == 'range' \
                    and all(isinstance(a, ast.Constant) and isinstance(a.value, int) for a in cj.comparators[0].args):
                allowed = range(*[a.value for a in cj.comparators[0].args])      # type: ignore[attr-defined]
    if allowed is None:
        raise AnalysisError('C06.LZMA: the Writer no longer validates lzma_preset against a literal range')
    comp_keys = {k.value for d in ast.walk(ret) if isinstance(d, ast.Dict) for k in d.keys if isinstance(k, ast.Constant)}
    if fmt == ('lzma.FORMAT_RAW',) and isinstance(dec, list) and dec and isinstance(dec[0], dict):
        d0 = dec[0]
        dec_dict = d0.get('dict_size') if isinstance(d0.get('dict_size'), int) else \
            PRESET_DICT[d0['preset']] if isinstance(d0.get('preset'), int) and 0 <= d0['preset'] <= 9 else PRESET_DICT[6]
        need = max(PRESET_DICT[p] for p in allowed if 0 <= p <= 9) if 'dict_size' not in comp_keys else None
        if need is None:
            raise AnalysisError('C06.LZMA: the compression filter now sets dict_size itself - extend the rule to compare the two values')
        rep.check(dec_dict >= need, 'C06.LZMA', 'raw-dictionary', f'decoder dictionary {dec_dict >> 20} MiB; largest encoder dictionary over presets '
                  f'{allowed.start}..{allowed.stop - 1}: {need >> 20} MiB', K,
                  expected='decoder dict_size >= the dictionary of every accepted preset (a raw LZMA2 stream does not record it)')


def writer_validated(repo: Repo) -> Tuple[Set[str], Dict[str, str]]:
    """constraints the writer enforces with FlipJumpWriteFjmException (where)."""
    got: Set[str] = set()
    where: Dict[str, str] = {}
    for fn in ('Writer.add_segment', 'Writer.add_data', 'Writer.write_to_file', reljump_writer(repo)):
        if not repo.has_func(W, fn):
            continue
        wcls = next((n for n in repo.mod(W).body if isinstance(n, ast.ClassDef) and n.name == 'Writer'), None)
        keep_ = tuple(m.name for m in (wcls.body if wcls else []) if isinstance(m, ast.FunctionDef) and m.name.startswith('_validate'))
        f = expand_private_calls(repo, W, repo.func(W, fn), 'Writer', keep=keep_)        # an extracted `_check_x(..)` reads as the test it makes
        for test, r, outer in raise_guards(f):
            if raised_class(r) != 'FlipJumpWriteFjmException':
                continue
            for v in classify_guard(test):
                got.add(v)
                where[v] = f'{W}:{test.lineno} {fn}'
        if fn in ('Writer.add_data', 'Writer.write_to_file'):
            # V10: SOME word outside [0, 2^w) is rejected - the element predicate, however the search is spelled, is folded on a grid
            for seq in ('data', 'self.data'):
                for var, pred, rz in element_rejections(f, seq):
                    if raised_class(rz) != 'FlipJumpWriteFjmException':
                        continue
                    agree = True
                    for wv in (8, 16, 64):
                        for x in (-5, -1, 0, 1, (1 << wv) - 1, 1 << wv, (1 << wv) + 7):
                            try:
                                gotv = bool(eval_int_expr(pred, {var: x, 'self.word_size': wv}))
                            except AnalysisError:
                                agree = False
                                break
                            agree = agree and gotv == (x < 0 or x >= (1 << wv))
                    if agree:
                        got.add('V10')
                        where['V10'] = f'{W}:{rz.lineno} {fn}'
        if fn == 'Writer.add_segment':
            reached = writer_validator_calls(repo, fn)
            if '_validate_segment_addresses_not_overlapping' in reached:
                got.add('V7'); where['V7'] = f'{W}:{reached["_validate_segment_addresses_not_overlapping"].lineno}'
            if '_validate_segment_data_not_overlapping' in reached:
                got.add('V8'); where['V8'] = f'{W}:{reached["_validate_segment_data_not_overlapping"].lineno}'
    return got, where


def reader_rejected(repo: Repo) -> Tuple[Set[str], Dict[str, str]]:
    got: Set[str] = set()
    where: Dict[str, str] = {}
    f = _reader_init_memory(repo)
    for test, r, outer in raise_guards(f):
        if raised_class(r) != 'FlipJumpReadFjmException':
            continue
        for v in classify_guard(test):
            got.add(v)
            where[v] = f'{R}:{test.lineno}'
    # overlap rejection: a sorted sweep with a raise when the next start lies before the previous end - in _init_memory itself
    # (helpers are expanded in place) or in a private helper it still calls
    bodies = [f] + [repo.func(R, f'Reader.{dotted(c.func).split(".")[1]}') for c in calls(f)
                    if dotted(c.func).startswith('self._') and repo.has_func(R, f'Reader.{dotted(c.func).split(".")[1]}')]
    for hf in bodies:
        hf = normalize_sorted_sweeps(hf)
        tests = [cn(t) for t, r, _ in raise_guards(hf) if raised_class(r) == 'FlipJumpReadFjmException']
        srt = any(isinstance(x, ast.Call) and dotted(x.func) == 'sorted' for x in ast.walk(hf))
        if srt and cc('start2 < end1') in tests:
            got.add('V7')
            where['V7'] = f'{R}:{hf.lineno}'
    return got, where


def rule_writer_validates(rep: Report, repo: Repo) -> None:
    rep.rule('C06.WRITER-VALIDATES', 'every constraint the reader rejects or the file format cannot hold is validated by the '
             'writer with its own exception before anything is written (otherwise the writer produces a file the reader '
             'refuses, or dies with struct.error)', 10)
    wv, wwhere = writer_validated(repo)
    rr, rwhere = reader_rejected(repo)
    unrepresentable = {'V9', 'V10'}                # struct.pack would raise struct.error
    needed = rr | unrepresentable | {'V1', 'V2', 'V3', 'V4', 'V7', 'V8'}
    for v in sorted(needed, key=lambda s: int(s[1:])):
        src = 'reader-rejected' if v in rr else ('format-unrepresentable' if v in unrepresentable else 'format invariant')
        rep.check(v in wv, 'C06.WRITER-VALIDATES', f'Writer:{v}',
                  f'{VOCAB[v]} ({src}): ' + (f'validated at {wwhere.get(v)}' if v in wv else 'NOT validated by the writer'),
                  wwhere.get(v, f'{W} Writer.add_segment'), expected='raise FlipJumpWriteFjmException')
    # validation precedes mutation in add_segment
    add = repo.func(W, 'Writer.add_segment')
    first_mut = min([n.lineno for n in ast.walk(add) if isinstance(n, ast.Call) and dotted(n.func) in
                     ('self.' + reljump_writer(repo).split('.')[1], 'self.segments.append')] or [0])
    last_val = max([t.lineno for t, r, _ in raise_guards(add)] + [n.lineno for n in ast.walk(add) if isinstance(n, ast.Call)
                   and dotted(n.func).startswith('self._validate')] or [0])
    rep.check(0 < last_val < first_mut, 'C06.WRITER-VALIDATES', 'Writer.add_segment:validate-before-mutate',
              f'last validation line {last_val} < first mutation line {first_mut}', f'{W}:{add.lineno}')


def rule_range_exact(rep: Report, repo: Repo) -> None:
    rep.rule('C06.RANGE-EXACT', 'the range validations of the container are exact on their boundaries, on both sides alike: folded on a grid '
             'of boundary values, the writer rejects flags iff flags < 0 or flags >= 2^64, a segment iff start < 0 or start + length >= '
             '2^64 (the native loader refuses a range that reaches 2^64), data iff a word is < 0 or >= 2^w; the reader rejects a segment '
             'iff start + length >= 2^64. A boundary moved by one on one side makes the two sides disagree about a legal file', 4)
    from ..excflow import refusal_tests
    B = 1 << 64

    def names_of(e: ast.AST) -> Set[str]:
        return {norm(x) for x in ast.walk(e) if isinstance(x, (ast.Name, ast.Attribute))}

    def grid(name: str, tests: List[ast.expr], envs: List[Dict[str, int]], want: Any, site: str) -> None:
        """the refusals `tests` (any of them) against the reference predicate on every environment"""
        bad: List[str] = []
        if not tests:
            bad.append('the validating test was not found')
        for env in envs if tests else []:
            try:
                got = any(bool(eval_int_expr(t, env)) for t in tests)
            except AnalysisError as ex:
                bad.append(f'not foldable: {ex}')
                break
            if got != bool(want(env)):
                bad.append(f'{ {k: (hex(v) if abs(v) > 99 else v) for k, v in env.items()} }: rejects={got}, reference {bool(want(env))}')
        rep.check(not bad, 'C06.RANGE-EXACT', name, bad[0] if bad else f'agrees with the reference on {len(envs)} boundary cases', site)
    wi = repo.func(W, 'Writer.__init__')
    grid('Writer:flags', _refusals_about(wi, {'flags'}), [{'flags': v} for v in (-2, -1, 0, 1, B - 1, B, B + 1)],
         lambda e: e['flags'] < 0 or e['flags'] >= B, f'{W}:{wi.lineno} Writer.__init__')
    # aligned, non-empty segments: of all validations that speak about (start, length) only the range test can refuse them
    wa = repo.func(W, 'Writer.add_segment')
    pts = [(s_, l_) for s_ in (-2, 0, 2, B - 4, B - 2, B) for l_ in (2, 4, B - 2)]
    grid('Writer:segment-end', _refusals_about(wa, {'segment_start', 'segment_length'}), [{'segment_start': a, 'segment_length': b} for a, b in pts],
         lambda e: e['segment_start'] < 0 or e['segment_start'] + e['segment_length'] >= B, f'{W}:{wa.lineno} Writer.add_segment')
    im = _reader_init_memory(repo)
    grid('Reader:segment-end', _refusals_about(im, {'segment_start', 'segment_length'}), [{'segment_start': a, 'segment_length': b} for a, b in pts if a >= 0],
         lambda e: e['segment_start'] + e['segment_length'] >= B, f'{R}:{im.lineno} Reader._init_memory')
    # ... and at the narrow widths: the reader's accessors mask a word address to w bits, so a segment at word 2^w (w = 8, 16, 32) is read
    # back at word 0 - the range has to be refused by the memory of the width, not only by what the 64-bit segment field can hold
    for side, fn_, rel_ in (('Writer', wa, W), ('Reader', im, R)):
        tests_ = _refusals_about(fn_, {'segment_start', 'segment_length'})
        missed = []
        for ws in (8, 16, 32):
            try:
                got = any(bool(eval_int_expr(t, {'segment_start': 1 << ws, 'segment_length': 2, 'self.word_size': ws, 'self.memory_width': ws})) for t in tests_)
            except AnalysisError:
                got = False
            if not got:
                missed.append(ws)
        rep.check(not missed, 'C06.RANGE-EXACT', f'{side}:segment-end at narrow widths', 'refused' if not missed else
                  f'a segment starting at word 2^w is accepted at w = {missed}: Reader.get_word masks the word address with 2^w - 1, so its words are '
                  f'read back as the words 0, 1, .. (a hand-built image at w=8 with segments [0,2) and [0x100,0x102) reads 0x100 as word 0)',
                  f'{rel_}:{fn_.lineno}', expected='start + length bounded by the words a w-bit memory holds')
    # data words: either a test on min(data) / max(data), or a per-word predicate inside a generator / comprehension / loop
    ad = repo.func(W, 'Writer.add_data')
    word_tests: List[ast.expr] = []
    for x in ast.walk(ad):
        if isinstance(x, (ast.GeneratorExp, ast.ListComp)) and len(x.generators) == 1 and x.generators[0].ifs and norm(x.generators[0].iter) == 'data' \
                and isinstance(x.generators[0].target, ast.Name):
            v = x.generators[0].target.id
            for c in x.generators[0].ifs:
                c2 = resolve_names(ad, c)
                class S2(ast.NodeTransformer):
                    def visit_Name(self, node: ast.Name) -> ast.AST:
                        return ast.Name(id='word', ctx=node.ctx) if node.id == v else node
                word_tests.append(S2().visit(ast.parse(norm(c2), mode='eval').body))
    mm_tests: List[ast.expr] = []
    for r, e in refusal_tests(ad):
        if any(isinstance(c, ast.Call) and dotted(c.func) in ('min', 'max') and norm(c.args[0] if c.args else c) == 'data' for c in ast.walk(e)):
            class S3(ast.NodeTransformer):
                def visit_Call(self, node: ast.Call) -> ast.AST:
                    k = norm(node)
                    return ast.Name(id={'min(data)': 'lo', 'max(data)': 'hi'}[k], ctx=ast.Load()) if k in ('min(data)', 'max(data)') else self.generic_visit(node)
            mm_tests.append(S3().visit(ast.parse(norm(e), mode='eval').body))
    site = f'{W}:{ad.lineno} Writer.add_data'
    if mm_tests:
        envs = [{'data': 1, 'lo': lo, 'hi': hi, 'self.word_size': ws} for ws in (8, 16, 32, 64) for lo in (-1, 0, 1) for hi in ((1 << ws) - 1, 1 << ws, (1 << ws) + 1) if lo <= hi]
        grid('Writer:data-words', mm_tests, envs, lambda e: e['lo'] < 0 or e['hi'] >= (1 << e['self.word_size']), site)
    else:
        envs = [{'word': v, 'self.word_size': ws} for ws in (8, 16, 32, 64) for v in (-1, 0, 1, (1 << ws) - 1, 1 << ws, (1 << ws) + 1)]
        grid('Writer:data-words', word_tests[:1], envs, lambda e: e['word'] < 0 or e['word'] >= (1 << e['self.word_size']), site)


def _refusals_about(fn: ast.AST, keep: Set[str]) -> List[ast.expr]:
    """the refusals of fn whose OWN test (the condition of the raising branch, locals read through) speaks about the names in `keep`
    only: each as one expression - the own test and, of the earlier validations it is reached after, those about `keep`"""
    from ..excflow import raise_conditions
    def names(x: ast.AST) -> Set[str]:
        return {norm(y) for y in ast.walk(x) if isinstance(y, (ast.Name, ast.Attribute)) and not isinstance(getattr(y, '_skip', None), bool)}
    out: List[ast.expr] = []
    for r, conds in raise_conditions(fn):
        own = [resolve_names(fn, c, allow_calls=True, depth=3) for c, pol in conds if pol]          # type: ignore[arg-type]
        prior = [resolve_names(fn, c, allow_calls=True, depth=3) for c, pol in conds if not pol]    # type: ignore[arg-type]
        plain = lambda e: {y.id for y in ast.walk(e) if isinstance(y, ast.Name)} | {norm(y) for y in ast.walk(e) if isinstance(y, ast.Attribute)}
        if not own or not all(plain(c) and plain(c) <= keep for c in own):
            continue
        parts = list(own) + [ast.UnaryOp(op=ast.Not(), operand=c) for c in prior if plain(c) and plain(c) <= keep]
        seen, uniq = set(), []
        for p_ in parts:
            k = ast.dump(p_)
            if k not in seen:
                seen.add(k)
                uniq.append(p_)
        out.append(ast.fix_missing_locations(uniq[0] if len(uniq) == 1 else ast.BoolOp(op=ast.And(), values=uniq)))
    return out


def _only_about(e: ast.expr, keep: Set[str]) -> Optional[ast.expr]:
    """the conjuncts / the disjunction of a refusal that speak about `keep` only (the negated earlier validations that dominate a later
    raise speak about other fields and are dropped)"""
    def names(x: ast.AST) -> Set[str]:
        return {y.id for y in ast.walk(x) if isinstance(y, ast.Name)}
    if isinstance(e, ast.BoolOp) and isinstance(e.op, ast.And):
        parts = [v for v in e.values if names(v) and names(v) <= keep]
        if not parts:
            return None
        return parts[0] if len(parts) == 1 else ast.BoolOp(op=ast.And(), values=parts)
    return e if names(e) and names(e) <= keep else None


def rule_overlap(rep: Report, repo: Repo) -> None:
    rep.rule('C06.OVERLAP', 'the overlap predicates agree with interval intersection: Writer._is_collision (inclusive ends) is '
             'equivalent to s1 <= e2 and s2 <= e1 on every order type of its four arguments; its callers pass start + length - 1 '
             'as the inclusive end and skip empty data ranges; the reader tests start2 < end1 on sorted half-open ranges', 4)
    from ..ordereval import first_disagreement
    col = repo.func(W, 'Writer._is_collision')
    bad = first_disagreement(col, lambda s1, e1, s2, e2: s1 <= e2 and s2 <= e1, 4, lambda s1, e1, s2, e2: s1 <= e1 and s2 <= e2)
    rep.check(bad is None, 'C06.OVERLAP', 'Writer._is_collision', 'equivalent to inclusive-interval intersection on all order types'
              if bad is None else f'differs from inclusive-interval intersection for (start1, end1, start2, end2) = {tuple(bad)}',
              f'{W}:{col.lineno}', expected='s1 <= e2 and s2 <= e1')
    for fn_name, s, l in (('Writer._validate_segment_addresses_not_overlapping', 'segment_start', 'segment_length'),
                          ('Writer._validate_segment_data_not_overlapping', 'data_start', 'data_length')):
        fn = expand_private_calls(repo, W, repo.func(W, fn_name), 'Writer', depth=2)       # a private `last index` helper reads as its formula
        # the collision test is applied to (start, start + length - 1) of the stored segment and of the new one: the four arguments of
        # the one _is_collision call, read through the names the function gives to the inclusive ends
        cs = [[norm(resolve_names(fn, a)) for a in c.args] for c in calls(fn) if dotted(c.func) == 'self._is_collision']
        ends = cs[0] if cs else []
        ok = len(cs) == 1 and len(cs[0]) == 4 and cs[0][0] == s and cs[0][1] == f'{s} + {l} - 1' and cs[0][2] == f'new_{s}' \
            and cs[0][3] == f'new_{s} + new_{l} - 1'
        if 'data' in fn_name:
            # empty data ranges never collide: at the raise both lengths are known non-zero (early return / continue / a conjunct)
            from ..excflow import GuardFacts, dominating_guards
            raises = [r for r in ast.walk(fn) if isinstance(r, ast.Raise)]
            ok = ok and bool(raises) and all(GuardFacts(dominating_guards(r)).get('new_data_length != 0') is True and
                                             GuardFacts(dominating_guards(r)).get('data_length != 0') is True for r in raises)
        rep.check(ok, 'C06.OVERLAP', fn_name, f'ends {ends}; call {cs}', f'{W}:{fn.lineno}', expected='inclusive end = start + length - 1')
    if repo.has_func(R, 'Reader._validate_segments_not_overlapping'):
        hf = normalize_sorted_sweeps(repo.func(R, 'Reader._validate_segments_not_overlapping'))
        srt = [norm(st.value) for st in ast.walk(hf) if isinstance(st, ast.Assign) and isinstance(st.value, ast.Call) and dotted(st.value.func) == 'sorted']
        tests = ['start2<end1' if cn(t) == cc('start2 < end1') else norm(t).replace(' ', '') for t, r, _ in raise_guards(hf)]
        zipped = any(isinstance(n, ast.For) and 'zip(' in norm(n.iter) and '[1:]' in norm(n.iter) for n in ast.walk(hf))
        rep.check(srt == ['sorted(((start, start + length) for start, length, _, _ in segments))'] and tests == ['start2<end1'] and zipped,
                  'C06.OVERLAP', 'Reader._validate_segments_not_overlapping', f'{srt} {tests}', f'{R}:{hf.lineno}',
                  expected='adjacent pairs of the sorted half-open ranges: start2 < end1')


_INPLACE_METHODS = {'append', 'extend', 'insert', 'clear', 'pop', 'remove', 'sort', 'reverse', 'update', 'setdefault', 'add', 'discard', 'popitem'}


def rule_pool_owned(rep: Report, repo: Repo) -> None:
    """the writer's containers are its own: it rewrites the data pool in place (relative jumps), so a pool that IS a caller's list
    would change words the caller still uses for the next segment (and change them again when that list is added a second time)."""
    rep.rule('C06.POOL-OWNED', 'every container attribute the Writer mutates in place (element store, +=, append/extend/..) is only ever '
             'bound to a fresh object: a literal, a comprehension, a call, a slice or a concatenation - never to a parameter, to a value '
             'read from a parameter, or to another object\'s attribute (an alias of a list the caller keeps)', 2)
    cls = next((n for n in repo.mod(W).body if isinstance(n, ast.ClassDef) and n.name == 'Writer'), None)
    if cls is None:
        raise AnalysisError('C06.POOL-OWNED: class Writer not found in ' + W)

    def self_attr(e: ast.AST) -> Optional[str]:
        return e.attr if isinstance(e, ast.Attribute) and isinstance(e.value, ast.Name) and e.value.id == 'self' else None

    mutated: Set[str] = set()
    for n in ast.walk(cls):
        if isinstance(n, (ast.Assign, ast.AugAssign, ast.AnnAssign, ast.Delete)):
            tgts = n.targets if isinstance(n, (ast.Assign, ast.Delete)) else [n.target]
            for t in tgts:
                for sub in ast.walk(t):
                    if isinstance(sub, ast.Subscript) and self_attr(sub.value):
                        mutated.add(self_attr(sub.value))          # type: ignore[arg-type]
            if isinstance(n, ast.AugAssign) and self_attr(n.target) and isinstance(n.op, (ast.Add, ast.BitOr, ast.Mult)):
                mutated.add(self_attr(n.target))                    # type: ignore[arg-type]
        if isinstance(n, ast.Call) and isinstance(n.func, ast.Attribute) and n.func.attr in _INPLACE_METHODS and self_attr(n.func.value):
            mutated.add(self_attr(n.func.value))                    # type: ignore[arg-type]
    # numbers are also `+=`-ed: a container is an attribute that (also) has an element store / in-place method, or a literal container binding
    containers: Set[str] = set()
    for n in ast.walk(cls):
        if isinstance(n, (ast.Assign, ast.AnnAssign)) and n.value is not None:
            for t in (n.targets if isinstance(n, ast.Assign) else [n.target]):
                if self_attr(t) in mutated and (isinstance(n.value, (ast.List, ast.Dict, ast.Set, ast.ListComp, ast.DictComp, ast.SetComp)) or (
                        isinstance(n.value, ast.Call) and dotted(n.value.func) in ('list', 'dict', 'set', 'collections.deque', 'deque') and not n.value.keywords)):
                    containers.add(self_attr(t))                    # type: ignore[arg-type]
    if not {'data', 'segments'} <= containers:
        raise AnalysisError(f'C06.POOL-OWNED: the data pool / segment table of the Writer were not recognised as its containers ({sorted(containers)})')

    def fresh(e: ast.expr, fn: Any, depth: int = 0) -> Optional[str]:
        """None when e is a new object; else what it aliases"""
        if isinstance(e, (ast.List, ast.Dict, ast.Set, ast.Tuple, ast.ListComp, ast.DictComp, ast.SetComp, ast.GeneratorExp, ast.Constant,
                          ast.JoinedStr, ast.Call, ast.BinOp, ast.Compare, ast.UnaryOp)):
            return None
        if isinstance(e, ast.Subscript):
            return None if isinstance(e.slice, ast.Slice) else f'the element {norm(e)} of another container'
        if isinstance(e, ast.IfExp):
            return fresh(e.body, fn, depth) or fresh(e.orelse, fn, depth)
        if isinstance(e, ast.BoolOp):
            return next((r for r in (fresh(v, fn, depth) for v in e.values) if r), None)
        if isinstance(e, ast.NamedExpr):
            return fresh(e.value, fn, depth)
        if isinstance(e, ast.Attribute):
            return f'the attribute {norm(e)}'
        if isinstance(e, ast.Name):
            params = {a.arg for a in fn.args.posonlyargs + fn.args.args + fn.args.kwonlyargs} | {a.arg for a in (fn.args.vararg, fn.args.kwarg) if a}
            defs = [d for d in walk_no_nested(fn) if isinstance(d, (ast.Assign, ast.AnnAssign)) and d.value is not None and any(
                isinstance(t, ast.Name) and t.id == e.id for t in (d.targets if isinstance(d, ast.Assign) else [d.target]))]
            others = [d for d in walk_no_nested(fn) if (isinstance(d, (ast.For, ast.AugAssign, ast.withitem, ast.NamedExpr)) and any(
                isinstance(x, ast.Name) and x.id == e.id and isinstance(x.ctx, ast.Store) for x in ast.walk(
                    d.target if isinstance(d, (ast.For, ast.AugAssign, ast.NamedExpr)) else (d.optional_vars or ast.Pass()))))]
            if e.id in params and not defs:
                return f'the parameter `{e.id}` (the caller\'s object)'
            if depth > 4 or others:
                return f'the name `{e.id}` (not a plain local of fresh values)'
            res = [fresh(d.value, fn, depth + 1) for d in defs]
            if e.id in params:
                res.append(f'the parameter `{e.id}` (the caller\'s object)')
            if not defs and e.id not in params:
                return f'the non-local name `{e.id}`'
            return next((r for r in res if r), None)
        return f'`{norm(e)}`'

    n_sites = 0
    for fn in [m for m in cls.body if isinstance(m, (ast.FunctionDef, ast.AsyncFunctionDef))]:
        for st in walk_no_nested(fn):
            pairs: List[Tuple[ast.expr, ast.expr]] = []
            if isinstance(st, ast.Assign):
                for t in st.targets:
                    if isinstance(t, (ast.Tuple, ast.List)) and isinstance(st.value, (ast.Tuple, ast.List)) and len(t.elts) == len(st.value.elts):
                        pairs += list(zip(t.elts, st.value.elts))
                    else:
                        pairs.append((t, st.value))
            elif isinstance(st, ast.AnnAssign) and st.value is not None:
                pairs.append((st.target, st.value))
            for t, v in pairs:
                a = self_attr(t)
                if a in containers:
                    n_sites += 1
                    why = fresh(v, fn)
                    rep.check(why is None, 'C06.POOL-OWNED', f'Writer.{fn.name}:self.{a} = {norm(v)[:50]}',
                              'bound to a fresh object' if why is None else f'self.{a} becomes {why}: the Writer later changes it in place '
                              f'(relative-jump rewrite / extension), which changes the other holder\'s data', repo.site(W, st),
                              expected='a copy: list(x) / x[:] / `self.data += x`')
                elif isinstance(t, (ast.Tuple, ast.List)) and any(self_attr(x) in containers for x in ast.walk(t)):
                    rep.fail('C06.POOL-OWNED', f'Writer.{fn.name}:{norm(t)}', 'container attribute bound by an unpacking the rule cannot pair with its value', repo.site(W, st))
    if n_sites < 2:
        raise AnalysisError(f'C06.POOL-OWNED: {n_sites} bindings of Writer containers found (the two in __init__ expected)')


def check(rep: Report, repo: Optional[Repo] = None) -> None:
    repo = repo or Repo()
    rep.units = dict(files=[W, R, K], functions=['Writer.write_to_file', 'Writer.add_segment', 'Writer._update_to_relative_jumps',
                     'Reader._init_header_fields', 'Reader._init_memory', 'Reader._read_decompressed_data', 'Reader._get_memory_word'])
    rule_formats(rep, repo)
    rule_fields(rep, repo)
    rule_version_gates(rep, repo)
    rule_reljump(rep, repo)
    rule_zerofill(rep, repo)
    rule_lzma(rep, repo)
    rule_writer_validates(rep, repo)
    rule_overlap(rep, repo)
    rule_range_exact(rep, repo)
    rule_pool_owned(rep, repo)
    rep.not_decided.append('equality of the loaded image for all writer call sequences (value-level)')
    rep.assumptions.append('struct and lzma behave as documented (one-shot lzma.decompress checks the end marker)')


MANIFEST = dict(
    technique='boundary-exact range validations on both sides; writer/reader table agreement; linear-form inverse check; raise-guard vocabulary inclusion',
    level_text='Static, structural: the two sides of the .fjm format share format constants, field order, version gates and '
               'word codes; the relative-jump encode/decode normalise to inverse affine maps over the same index set and mask; '
               'both zero-tail branches cover the same interval; the writer validates (with its own exception) everything the '
               'reader rejects or struct cannot hold. Round-trip equality for all inputs is not decided.',
    level_note='Trusted: CPython ast, struct.calcsize, the constraint vocabulary V1..V10 in rules/c06.py.',
    design_ref='DESIGN.md section 4 C06',
)
