"""C11 - the native engine is memory-safe (site-exhaustive, idiom-based audit; not a proof)."""
from __future__ import annotations

import re
from typing import Any, Dict, List, Optional, Set, Tuple

from .. import linexpr as lx
from ..ccfg import build_c_cfg
from ..cfacts import CUnit, dispatcher_of, call_args, callee, int_value, is_assign, strip, walk
from ..core import AnalysisError, Report
from ..linexpr import Env, c_ir, to_lin
from ..pycfg import Graph, Node
from ..pyfacts import Repo
from ..steps import c_assigned, c_mentions, path_conditions

PAGE_WORDS = 1 << 14


# the quantities the accepted idioms are phrased in: read-through stops at these names
RD_KEEP = {'start', 'end', 'end_clamped', 'lo', 'hi', 'page_start', 'page_end', 'low_max_end', 'max_end', 'new_capacity', 'new_count', 'i', 'seg', 'limit',
           'word_address', 'bit_address', 'count', 'n'}


class Fn:
    """per-function facts: CFG, must-path-conditions, local definitions."""

    def __init__(self, cu: CUnit, name: str, consts: Optional[Dict[str, int]] = None):
        self.cu, self.name = cu, name
        self.g = build_c_cfg(cu, name, consts or {})
        self.IN = path_conditions(self.g, self.g.entry, c_assigned, c_mentions)
        self.node_of: Dict[int, int] = {}
        for node in self.g.nodes:
            if isinstance(node.ast, dict) and node.kind in ('stmt', 'cond', 'return', 'switch'):
                for x in walk(node.ast):
                    self.node_of[id(x)] = node.id
        self.defs: Dict[str, List[Dict[str, Any]]] = {}
        for n in walk(cu.body(name)):
            if n.get('kind') == 'VarDecl' and n.get('inner'):
                init = [c for c in n['inner'] if isinstance(c, dict) and c.get('kind')]
                if init:
                    self.defs.setdefault(n['name'], []).append(init[-1])
            elif is_assign(n):
                l0 = strip(n['inner'][0])
                if l0.get('kind') == 'DeclRefExpr':
                    self.defs.setdefault(l0['referencedDecl']['name'], []).append(n['inner'][1])
        self.env = Env({})

    def rd(self, node: Dict[str, Any], depth: int = 0, plain: bool = False) -> lx.IR:
        """the expression as IR with locals that merely name a value read through: a local with exactly one definition (declaration
        initialiser or a single assignment) that is never modified otherwise (`uint64_t* dst = m->flat + lo;`, `size_t bytes = n *
        sizeof(T);`) reads as that value. casts are already dropped by c_ir; sizeof reads as the type it measures."""
        modified = getattr(self, '_modified', None)
        if modified is None:
            modified = set()
            for n in walk(self.cu.body(self.name)):
                if n.get('kind') in ('CompoundAssignOperator',) or (n.get('kind') == 'UnaryOperator' and n.get('opcode') in ('++', '--', '&')):
                    l0 = strip(n['inner'][0])
                    if l0.get('kind') == 'DeclRefExpr':
                        modified.add(l0['referencedDecl']['name'])
            self._modified = modified
        bind: Dict[str, lx.IR] = {}
        params = set(self.cu.params(self.name))
        for nm, ds in self.defs.items():
            if len(ds) == 1 and nm not in modified and nm not in params and depth < 4:
                if plain:
                    # name-independent reading: every local whose one definition is a plain expression (no choice, no call) reads
                    # as that expression; a local defined by a conditional (a min / max) or a call stays a quantity of its own
                    if any(x.get('kind') in ('ConditionalOperator', 'CallExpr') for x in walk(ds[0])):
                        continue
                elif nm in RD_KEEP:
                    continue
                bind[nm] = ds[0]            # type: ignore[assignment]
        ir = c_ir(node, self.cu.src_of)

        def subst(e: Any, d: int) -> Any:
            if isinstance(e, tuple):
                if e and e[0] == 'sym' and e[1] in bind and d < 4:
                    return subst(c_ir(bind[e[1]], self.cu.src_of), d + 1)       # type: ignore[arg-type]
                return tuple(subst(x, d) for x in e)
            if isinstance(e, list):
                return [subst(x, d) for x in e]
            return e
        return subst(ir, 0)

    def facts(self, sub: Dict[str, Any]) -> List[Tuple[lx.IR, str, str]]:
        nid = self.node_of.get(id(sub))
        if nid is None:
            return []
        out = []
        for cid, pol in (self.IN.get(nid) or frozenset()):
            a = self.g.nodes[cid].ast
            out.append((c_ir(a, self.cu.src_of), pol, self.cu.src_of(a)))
        # short-circuit facts inside the same condition:  A && B  ->  while evaluating B, A holds
        p = self.cu.parent(sub)
        child = sub
        while p is not None and p.get('kind') not in ('CompoundStmt', 'IfStmt', 'ForStmt', 'DoStmt', 'WhileStmt'):
            if p.get('kind') == 'BinaryOperator' and p.get('opcode') in ('&&', '||') and p['inner'][1] is child:
                out.append((c_ir(p['inner'][0], self.cu.src_of), 'T' if p['opcode'] == '&&' else 'F',
                            self.cu.src_of(p['inner'][0])))
            if p.get('kind') == 'ConditionalOperator' and child is not p['inner'][0]:
                out.append((c_ir(p['inner'][0], self.cu.src_of), 'T' if p['inner'][1] is child else 'F',
                            self.cu.src_of(p['inner'][0])))
            child = p
            p = self.cu.parent(p)
        return out

    def atomic_facts(self, sub: Dict[str, Any]) -> List[Tuple[str, lx.IR, lx.IR]]:
        """flattened comparisons known to hold: (op, lhs, rhs)."""
        out: List[Tuple[str, lx.IR, lx.IR]] = []
        NEG = {'<': '>=', '<=': '>', '>': '<=', '>=': '<', '==': '!=', '!=': '=='}

        def add(ir: lx.IR, pol: bool) -> None:
            if ir[0] == 'bool':
                if (ir[1] == 'and' and pol) or (ir[1] == 'or' and not pol):
                    for x in ir[2]:
                        add(x, pol)
                return
            if ir[0] == 'un' and ir[1] == '!':
                add(ir[2], not pol)
                return
            if ir[0] == 'cmp' and len(ir[1]) == 1:
                op = ir[1][0] if pol else NEG[ir[1][0]]
                a, b = ir[2][0], ir[2][1]
                # p == NULL / p != NULL (NULL folds to 0 or ((void*)0)) read as !p / p
                nullish = lambda x: x == ('num', 0) or lx.show(x).replace(' ', '') in ('NULL', '((void*)0)', '0')
                if op in ('==', '!=') and (nullish(a) or nullish(b)) and not (nullish(a) and nullish(b)):
                    other = b if nullish(a) else a
                    if other[0] in ('sym', 'attr', 'idx'):
                        out.append(('falsy' if op == '==' else 'truthy', other, ('num', 0)))
                out.append((op, a, b))
                # the same fact with its operands swapped (`hi >= lo` is `lo <= hi`): consumers match either spelling
                FLIP = {'<': '>', '<=': '>=', '>': '<', '>=': '<=', '==': '==', '!=': '!='}
                if op in FLIP:
                    out.append((FLIP[op], b, a))
                return
            out.append(('truthy' if pol else 'falsy', ir, ('num', 0)))
        fs = self.facts(sub)
        for ir, pol, _ in fs:
            add(ir, pol == 'T')
        # not (A and B) together with A  =>  not B
        known_true = {lx.show(a) for op, a, b in out if op == 'truthy'} | \
                     {f'({lx.show(a)} {op} {lx.show(b)})' for op, a, b in out if op not in ('truthy', 'falsy')}
        for ir, pol, _ in fs:
            if pol == 'F' and ir[0] == 'bool' and ir[1] == 'and':
                rest = [x for x in ir[2] if lx.show(x) not in known_true]
                if len(rest) == 1:
                    add(rest[0], False)
        return out

    def resolved(self, e: Dict[str, Any]) -> List[Dict[str, Any]]:
        """the expression itself, or - for a plain local - all its (non-constant) definitions."""
        s = strip(e)
        if s.get('kind') == 'DeclRefExpr':
            ds = self.defs.get(s['referencedDecl']['name'])
            if ds:
                return ds
        return [e]




def _mask_bound(fn: Fn, e: Dict[str, Any], _depth: int = 0) -> Optional[Tuple[str, Any]]:
    """e (or every definition of it) is X & C  -> ('and', C-text or int) ; X % N -> ('mod', N-text).
    a parameter is bounded when the argument at every call site is."""
    kinds = set()
    s0 = strip(e)
    if s0.get('kind') == 'DeclRefExpr' and s0['referencedDecl']['name'] in fn.cu.params(fn.name) \
            and s0['referencedDecl']['name'] not in fn.defs and _depth < 2:
        pi = fn.cu.params(fn.name).index(s0['referencedDecl']['name'])
        sites = 0
        for caller in fn.cu.funcs:
            for c in walk(fn.cu.body(caller)):
                if c.get('kind') == 'CallExpr' and callee(c) == fn.name:
                    sites += 1
                    cache = fn.cu.__dict__.setdefault('_c11_fn_cache', {})      # per translation unit, never across variants
                    cf = cache.get(caller) or Fn(fn.cu, caller)
                    cache[caller] = cf
                    mb = _mask_bound(cf, call_args(c)[pi], _depth + 1)
                    if mb is None:
                        return None
                    kinds.add(mb)
        return kinds.pop() if sites and len(kinds) == 1 else None
    for d in fn.resolved(e):
        s = strip(d)
        if s.get('kind') == 'BinaryOperator' and s.get('opcode') == '&':
            c = int_value(s['inner'][1])
            if c is None:
                c = int_value(s['inner'][0])
            kinds.add(('and', c if c is not None else fn.cu.src_of(s['inner'][1])))
        elif s.get('kind') == 'BinaryOperator' and s.get('opcode') == '%':
            c = int_value(s['inner'][1])
            if c is not None and c > 0 and c & (c - 1) == 0:
                kinds.add(('and', c - 1))                  # x % 2^k on an unsigned x is x & (2^k - 1)
            else:
                kinds.add(('mod', fn.cu.src_of(strip(s['inner'][1]))))
        else:
            return None
    return kinds.pop() if len(kinds) == 1 else None


def _lt_fact(fn: Fn, sub: Dict[str, Any], idx: Dict[str, Any], bound_names: Set[str], slack: int = 0) -> Optional[str]:
    """a known fact  E < B  (B in bound_names) with E - idx a constant >= slack; returns the fact text."""
    il = to_lin(c_ir(idx, fn.cu.src_of), fn.env)
    for op, a, b in fn.atomic_facts(sub):
        if op in ('>', '>='):
            op, a, b = ('<' if op == '>' else '<='), b, a
        if op not in ('<', '<='):
            continue
        if lx.show(b).replace('self.', 'm.') not in bound_names and lx.show(b) not in bound_names:
            continue
        d = lx.lin_add(to_lin(a, fn.env), il, -1)
        if lx.lin_is_const(d):
            k = d.get('', 0) - (1 if op == '<=' else 0)      # E <= B  ==  E - 1 < B
            if k >= slack:
                return f'{lx.show(a)} {op} {lx.show(b)}'
    return None


# ---------------------------------------------------------------- C11.BOUNDS

def rule_bounds(rep: Report, cu: CUnit) -> None:
    rep.rule('C11.BOUNDS', 'every array subscript / pointer dereference / mem* range in _fjcore.c is matched to an accepted '
             'bounding idiom established on every path: mask below the declared/allocated size, loop or range test '
             'against the allocation count, binary-search bounds, append after a capacity check, NULL test before [0], '
             'out-parameters that always receive the address of a local', 95)
    fns: Dict[str, Fn] = {}
    for name in cu.funcs:
        consts = {'with_ring': 1} if name == 'run_paged_loop_impl' else {}
        fns[name] = Fn(cu, name, consts)
    # out-parameter pointers: every call site passes &local
    outparams: Dict[Tuple[str, str], bool] = {}
    for name in cu.funcs:
        params = cu.params(name)
        for caller in cu.funcs:
            for c in walk(cu.body(caller)):
                if c.get('kind') == 'CallExpr' and callee(c) == name:
                    for p, a in zip(params, call_args(c)):
                        s = strip(a)
                        is_addr = s.get('kind') == 'UnaryOperator' and s.get('opcode') == '&'
                        is_fwd = s.get('kind') == 'DeclRefExpr' and s['referencedDecl']['name'] in cu.params(caller)
                        key = (name, p)
                        outparams[key] = outparams.get(key, True) and (is_addr or is_fwd)
    for name, fn in fns.items():
        unevaluated = {id(x) for t_ in walk(cu.body(name)) if t_.get('kind') == 'UnaryExprOrTypeTraitExpr' for x in walk(t_)}       # sizeof operands
        for sub in walk(cu.body(name)):
            k = sub.get('kind')
            if id(sub) in unevaluated:
                continue
            if k == 'ArraySubscriptExpr':
                _judge_subscript(rep, cu, fn, sub)
            elif k == 'UnaryOperator' and sub.get('opcode') == '*':
                _judge_deref(rep, cu, fn, sub, outparams)
            elif k == 'CallExpr' and callee(sub) in ('memcpy', 'memset'):
                _judge_memrange(rep, cu, fn, sub)


def _base_key(cu: CUnit, base: Dict[str, Any]) -> Tuple[str, str]:
    """-> (family, owner)   e.g. ('slots','m'), ('flat',''), ('array16','page_cache_words')"""
    b = strip(base)
    ty = b.get('type', {}).get('qualType', '')
    txt = cu.src_of(b)
    if '[' in ty and ty.rstrip().endswith(']'):
        n = int(ty[ty.rindex('[') + 1:-1])
        return f'array{n}', txt
    last = txt.split('->')[-1].split('.')[-1]
    owner = txt[:-len(last)].rstrip('->.').strip()
    if txt == 'flat' or last == 'flat':
        return 'flat', owner
    if last == 'words' or txt == 'op_words' or 'page_cache_words[' in txt:
        return 'words', txt
    if last == 'slots' or txt == 'new_slots':
        return 'slots', txt
    if last == 'segments':
        return 'segments', owner
    if txt == 'last_ops_ring':
        return 'ring', ''
    if ty.replace(' ', '') in ('constchar*', 'char*'):
        return 'cstr', txt
    return 'unknown', txt


def _judge_subscript(rep: Report, cu: CUnit, fn: Fn, sub: Dict[str, Any]) -> None:
    base, idx = sub['inner']
    si_ = strip(idx)
    if si_.get('kind') == 'UnaryOperator' and si_.get('opcode') in ('++', '--') and si_.get('isPostfix'):
        idx = si_['inner'][0]                # a[i++] indexes with the value i has when the test before it was made
    fam, owner = _base_key(cu, base)
    site = cu.site(sub, fn.name)
    construct = f'{fn.name}:{cu.src_of(base)}[{cu.src_of(idx)}]'
    proof: Optional[str] = None
    if fam.startswith('array'):
        n = int(fam[5:])
        mb = _mask_bound(fn, idx)
        if mb and mb[0] == 'and' and isinstance(mb[1], int) and mb[1] < n:
            proof = f'index masked with {mb[1]} < declared size {n}'
    elif fam == 'flat':
        f = _lt_fact(fn, sub, idx, {'m.flat_count', 'flat_count', 'self.flat_count'})
        if f:
            proof = f'window test {f}'
        elif fn.name == 'mem_decide_storage':
            f = _lt_fact(fn, sub, idx, {'low_max_end'})
            if f and any(cu.src_of(d).startswith('(uint64_t*)malloc((size_t)low_max_end') for d in _member_assigns(cu, fn, 'flat')):
                proof = f'{f} and flat was allocated with low_max_end words'
        elif fn.name == 'Memory_set_words':
            facts = {(op, lx.show(a), lx.show(b)) for op, a, b in fn.atomic_facts(sub)}
            # the index (directly or through a single-definition local) is start_word + i
            forms = [to_lin(c_ir(d, cu.src_of), fn.env) for d in fn.resolved(idx)]
            is_sum = bool(forms) and all({k: v for k, v in f.items() if v} == {'start_word': 1, 'i': 1} for f in forms)
            if ('<=', '(start_word+count)', 'self.flat_count') in facts and ('<', 'i', 'count') in facts and is_sum:
                proof = 'start_word + count <= flat_count and i < count'
        else:
            # a static helper that fills / walks the window up to a parameter: every call site passes the allocation count
            for op, a, b in fn.atomic_facts(sub):
                if op != '<' or lx.show(b) not in cu.params(fn.name) or lx.show(b) in fn.defs:
                    continue
                if not lx.lin_eq(to_lin(a, fn.env), to_lin(c_ir(idx, cu.src_of), fn.env)):
                    continue
                pi = cu.params(fn.name).index(lx.show(b))
                sites = [(caller, c) for caller in cu.funcs for c in walk(cu.body(caller)) if c.get('kind') == 'CallExpr' and callee(c) == fn.name]
                good = []
                for caller, c in sites:
                    arg = cu.src_of(call_args(c)[pi])
                    cache = cu.__dict__.setdefault('_c11_fn_cache', {})
                    cf = cache.get(caller) or Fn(cu, caller)
                    cache[caller] = cf
                    alloc_ok = arg == 'low_max_end' and caller == 'mem_decide_storage' and any(
                        cu.src_of(d).startswith('(uint64_t*)malloc((size_t)low_max_end') for d in _member_assigns(cu, cf, 'flat'))
                    good.append(alloc_ok or arg.replace('->', '.') in ('m.flat_count', 'self.flat_count'))
                if sites and all(good):
                    proof = f'{lx.show(a)} < {lx.show(b)}, and every call site passes the allocation count of flat'
    elif fam == 'words':
        mb = _mask_bound(fn, idx)
        if mb and mb[0] == 'and' and mb[1] == PAGE_WORDS - 1:
            proof = f'index masked with PAGE_MASK ({mb[1]}) < PAGE_WORDS'
        else:
            # op_words[op_offset + 1]: below the page's valid end (<= PAGE_WORDS by page_compute_validity)
            f = _lt_fact(fn, sub, idx, {'op_valid_end', 'self.page_cache_valid_end[op_slot]'})
            if f:
                proof = f'{f} and a valid end never exceeds PAGE_WORDS'
    elif fam == 'slots':
        cnt = {'new_slots': 'new_count'}.get(owner, owner.replace('->', '.').replace('slots', 'slot_count'))
        f = _lt_fact(fn, sub, idx, {cnt, cnt.replace('self.', 'm.')})
        if f:
            proof = f'loop bound {f}'
        else:
            mb = _mask_bound(fn, idx)
            want = owner.replace('slots', 'slot_count') if owner != 'new_slots' else 'new_count'
            if mb and mb[0] == 'and' and isinstance(mb[1], str) and mb[1].replace(' ', '') in (f'({want}-1)', f'{want}-1'):
                proof = f'index masked with {mb[1]} (power-of-two table size)'
    elif fam == 'segments':
        cnt = f'{owner.replace("->", ".")}.segment_count'
        f = _lt_fact(fn, sub, idx, {cnt, cnt.replace('self.', 'm.')})
        if f:
            proof = f'loop bound {f}'
        elif _is_binary_search(cu, fn, sub, idx):
            proof = 'binary-search index (lo+hi)/2 with 0 <= lo <= hi <= count-1'
        elif cu.src_of(idx).endswith('segment_count') and _append_after_capacity(cu, fn):
            proof = 'append slot after the capacity check/realloc block'
    elif fam == 'ring':
        mb = _mask_bound(fn, idx)
        if mb and mb[0] == 'mod' and 'last_ops_length' in mb[1]:
            non_null = any(op == 'truthy' and lx.show(a) == 'last_ops_ring' for op, a, b in fn.atomic_facts(sub))
            if fn.name == 'run_paged_loop_impl' or non_null:
                proof = 'index % last_ops_length, ring non-NULL (with_ring clone / NULL test) implies length > 0'
        si = strip(idx)
        if not proof and si.get('kind') == 'DeclRefExpr':
            from ..cfacts import wrapping_cursors
            cur = wrapping_cursors(cu, fn.name).get(si['referencedDecl']['name'])
            non_null = any(op == 'truthy' and lx.show(a) == 'last_ops_ring' for op, a, b in fn.atomic_facts(sub))
            if cur is not None and lx.show(cur['mod']) == 'last_ops_length' and non_null:
                proof = ('wrapping cursor: defined once as E % last_ops_length, modified only by ++ directly followed by the wrap to 0 at '
                         'last_ops_length, so index < last_ops_length wherever it is read; ring non-NULL implies length > 0')
    elif fam == 'cstr':
        for op, a, b in fn.atomic_facts(sub):
            if op == 'truthy' and lx.show(a) == owner and int_value(idx) == 0:
                proof = f'NULL test of {owner} before [0]'
    if proof:
        rep.ok('C11.BOUNDS', construct, proof, site)
    else:
        rep.fail('C11.BOUNDS', construct, f'no accepted bounding idiom found for a {fam} access '
                 f'(facts: {[t for _, p, t in fn.facts(sub)][:5]})', site,
                 expected='index provably inside the allocation on every path')


def _member_assigns(cu: CUnit, fn: Fn, member: str) -> List[Dict[str, Any]]:
    out = []
    for n in walk(cu.body(fn.name)):
        if is_assign(n):
            l0 = strip(n['inner'][0])
            if l0.get('kind') == 'MemberExpr' and l0.get('name') == member:
                out.append(n['inner'][1])
    return out


def _is_binary_search(cu: CUnit, fn: Fn, sub: Dict[str, Any], idx: Dict[str, Any]) -> bool:
    s = strip(idx)
    if s.get('kind') != 'DeclRefExpr':
        return False
    mid = s['referencedDecl']['name']
    mdefs = [cu.src_of(d) for d in fn.defs.get(mid, [])]
    lo = [cu.src_of(d) for d in fn.defs.get('lo', [])]
    hi = [cu.src_of(d) for d in fn.defs.get('hi', [])]
    facts = {(op, lx.show(a), lx.show(b)) for op, a, b in fn.atomic_facts(sub)}
    return mdefs == ['(lo + hi) / 2'] and sorted(lo) == ['0', 'mid + 1'] and \
        sorted(hi) == ['m->segment_count - 1', 'mid - 1'] and ('<=', 'lo', 'hi') in facts


def _append_after_capacity(cu: CUnit, fn: Fn) -> bool:
    for n in walk(cu.body(fn.name)):
        if n.get('kind') == 'IfStmt' and cu.src_of(n['inner'][0]) == 'self->segment_count == self->segment_capacity':
            then = n['inner'][1]
            txts = [cu.src_of(x) for x in walk(then) if is_assign(x)]
            decl = [cu.src_of(d) for x in walk(then) if x.get('kind') == 'VarDecl' and x.get('name') == 'new_capacity'
                    for d in x.get('inner', []) if isinstance(d, dict) and d.get('kind')]
            # the grown block reaches self->segments through the local that received realloc(self->segments, ..)
            grown = {x['name'] for x in walk(then) if x.get('kind') == 'VarDecl' and any(
                c.get('kind') == 'CallExpr' and callee(c) == 'realloc' and cu.src_of(call_args(c)[0]) == 'self->segments' for c in walk(x))}
            return 'self->segment_capacity = new_capacity' in txts and any(f'self->segments = {g_}' in txts for g_ in grown) and \
                decl == ['self->segment_capacity ? self->segment_capacity * 2 : 8']
    return False


def _judge_deref(rep: Report, cu: CUnit, fn: Fn, sub: Dict[str, Any], outparams: Dict[Tuple[str, str], bool]) -> None:
    p = strip(sub['inner'][0])
    site = cu.site(sub, fn.name)
    construct = f'{fn.name}:{cu.src_of(sub)}'
    if p.get('kind') == 'UnaryOperator' and p.get('opcode') == '&' and strip(p['inner'][0]).get('kind') in ('MemberExpr', 'DeclRefExpr', 'ArraySubscriptExpr'):
        rep.ok('C11.BOUNDS', construct, 'dereference of the address of an lvalue: the lvalue itself (its own subscript is judged as such)', site)
        return
    if p.get('kind') == 'DeclRefExpr':
        name = p['referencedDecl']['name']
        if name in cu.params(fn.name):
            ok = outparams.get((fn.name, name), False)
            rep.check(ok, 'C11.BOUNDS', construct, 'out-parameter: every call site passes the address of a local (or forwards its own)'
                      if ok else 'a call site passes something other than &local', site)
            return
        adefs = [strip(d) for d in fn.defs.get(name, [])]
        if adefs and all(d.get('kind') == 'UnaryOperator' and d.get('opcode') == '&' and strip(d['inner'][0]).get('kind') in
                         ('MemberExpr', 'DeclRefExpr', 'ArraySubscriptExpr') for d in adefs):
            # a local that only ever holds the address of an existing lvalue (the expansion of Py_CLEAR / Py_SETREF; `&a[i]`, whose
            # subscript is judged where the address is taken)
            rep.ok('C11.BOUNDS', construct, f'local pointer defined only as {[cu.src_of(d) for d in adefs][:2]}: the address of an lvalue', site)
            return
        # a local that holds the result of a unit-local locator function: every return of the locator is NULL or the address of an
        # lvalue (whose own subscripts are judged inside the locator), and the dereference is dominated by the non-NULL test
        if adefs and all(d.get('kind') == 'CallExpr' and callee(d) in cu.funcs for d in adefs):
            locs = {callee(d) for d in adefs}
            good = True
            for lf in locs:
                rets = [r for r in walk(cu.body(lf)) if r.get('kind') == 'ReturnStmt' and r.get('inner')]
                for r in rets:
                    v = strip(r['inner'][0])
                    is_null = cu.src_of(v).replace(' ', '') in ('NULL', '0', '((void*)0)')
                    is_addr = v.get('kind') == 'UnaryOperator' and v.get('opcode') == '&' and strip(v['inner'][0]).get('kind') in (
                        'ArraySubscriptExpr', 'MemberExpr', 'DeclRefExpr')
                    good = good and (is_null or is_addr)
                good = good and bool(rets)
            truthy = any(op == 'truthy' and lx.show(a) == name for op, a, b in fn.atomic_facts(sub))
            if good and truthy:
                rep.ok('C11.BOUNDS', construct, f'pointer returned by {sorted(locs)}: NULL or the address of an lvalue judged there; non-NULL tested before use', site)
                return
        if name == 'op_flat_jump':
            truthy = any(op == 'truthy' and lx.show(a) == 'op_flat_jump' for op, a, b in fn.atomic_facts(sub))
            # its only non-NULL definition is flat + word_address + 1 under the window test
            defs = [d for d in fn.defs.get(name, []) if cu.src_of(d) != 'NULL']
            ok_def = len(defs) == 1 and cu.src_of(defs[0]) == 'flat + word_address + 1' and \
                _lt_fact(fn, defs[0], {'kind': 'BinaryOperator', 'opcode': '+', 'inner': strip(defs[0])['inner'][0]['inner']}
                         if False else _wa1(cu, defs[0]), {'flat_count'}) is not None
            rep.check(truthy and ok_def, 'C11.BOUNDS', construct,
                      f'non-NULL test={truthy}; defined as flat + word_address + 1 under word_address + 1 < flat_count={ok_def}', site)
            return
    rep.fail('C11.BOUNDS', construct, 'unaudited pointer dereference', site)


def _wa1(cu: CUnit, d: Dict[str, Any]) -> Dict[str, Any]:
    """for `flat + word_address + 1` return the AST of `word_address + 1` equivalent: ((flat + wa) + 1) -> use d minus base."""
    s = strip(d)           # (flat + word_address) + 1
    inner = strip(s['inner'][0])
    wa = inner['inner'][1]
    return {'kind': 'BinaryOperator', 'opcode': '+', 'inner': [wa, s['inner'][1]], 'range': s.get('range', {})}


def _judge_memrange(rep: Report, cu: CUnit, fn: Fn, c: Dict[str, Any]) -> None:
    a = call_args(c)
    site = cu.site(c, fn.name)
    construct = f'{fn.name}:{callee(c)}({cu.src_of(a[0])[:40]})'
    if callee(c) == 'memset' and cu.src_of(a[2]) == f'sizeof({cu.src_of(a[0])})':
        rep.ok('C11.BOUNDS', construct, 'memset(x, 0, sizeof(x)) of a member array', site)
        return
    facts = {(op, lx.show(x), lx.show(y)) for op, x, y in fn.atomic_facts(c)}
    # destination / source / byte count read through locals that merely name them (`uint64_t* dst = m->flat + lo;`)
    r0, r1, r2 = lx.show(fn.rd(a[0])), lx.show(fn.rd(a[1])), lx.show(fn.rd(a[2]))
    construct = f'{fn.name}:{callee(c)}({r0.strip("()").replace(".", "->").replace("+", " + ")[:40]})'
    if callee(c) == 'memset' and r0 == '(m.flat+start)':
        ok = r2 in ('((end_clamped-start)*sizeof(uint64_t))', '(sizeof(uint64_t)*(end_clamped-start))') and ('<', 'start', 'end_clamped') in facts
        rep.check(ok, 'C11.BOUNDS', construct, 'range [start, end_clamped) with start < end_clamped <= low_max_end (C07.COPYIN clamp)', site)
        return
    if callee(c) == 'memcpy' and r0 == '(m.flat+lo)':
        ok = r1 == '(m.slots[i].page.words+(lo-page_start))' and \
            r2 in ('((hi-lo)*sizeof(uint64_t))', '(sizeof(uint64_t)*(hi-lo))') and ('<', 'lo', 'hi') in facts
        rep.check(ok, 'C11.BOUNDS', construct, 'range [lo, hi) with page_start <= lo < hi <= min(page_end, low_max_end) (C07.COPYIN clamps)', site)
        return
    # neither named idiom: the same argument made from what the code says, whatever the locals are called
    proof = _memrange_proof(cu, fn, c)
    if proof:
        rep.ok('C11.BOUNDS', construct, proof, site)
        return
    rep.fail('C11.BOUNDS', construct, 'unaudited mem* range', site)


def _value_bounds(cu: CUnit, fn: Fn, name: str, site: Dict[str, Any]) -> Tuple[Set[str], Set[str]]:
    """(L, U): expressions (plain reading, see Fn.rd) with L <= name <= U at the site. each definition `name = (a < b) ? a : b`
    bounds it above by a and b (a max() below), any other definition by its own value on both sides; all definitions must agree.
    a clamp `if (name > X) name = X;` that follows every other definition and precedes the site adds X to U (its own assignment
    is not a definition in that sense)."""
    from .c07 import _minmax
    P = lambda n: fn.rd(n, plain=True)
    defs = list(fn.defs.get(name, []))
    clamps: List[Tuple[str, Dict[str, Any]]] = []
    for n in walk(cu.body(fn.name)):
        if n.get('kind') != 'IfStmt' or len(n.get('inner', [])) != 2:
            continue
        t = c_ir(n['inner'][0], cu.src_of)
        if not (t[0] == 'cmp' and len(t[1]) == 1):
            continue
        a_, b_, op = t[2][0], t[2][1], t[1][0]
        x = b_ if (lx.show(a_) == name and op in ('>', '>=')) else a_ if (lx.show(b_) == name and op in ('<', '<=')) else None
        if x is None:
            continue
        asg = [y for y in walk(n['inner'][1]) if is_assign(y)]
        if len(asg) == 1 and cu.src_of(asg[0]['inner'][0]) == name and c_ir(asg[0]['inner'][1], cu.src_of) == x:
            clamps.append((lx.show(P(asg[0]['inner'][1])), n))
            defs = [d for d in defs if d is not asg[0]['inner'][1]]
    lows: Optional[Set[str]] = None
    ups: Optional[Set[str]] = None
    for d in defs:
        ir = c_ir(d, cu.src_of)
        mm = None
        if ir[0] == 'cond' and ir[1][0] == 'cmp' and len(ir[1][1]) == 1:
            # (a < b) ? a : b is min(a, b); (a > b) ? a : b is max(a, b) - compared as written, shown in the plain reading
            op = ir[1][1][0]
            ca, cb, x_, y_ = ir[1][2][0], ir[1][2][1], ir[2], ir[3]
            if {lx.show(x_), lx.show(y_)} == {lx.show(ca), lx.show(cb)}:
                first = lx.show(x_) == lx.show(ca)
                kind = ('min' if first else 'max') if op in ('<', '<=') else ('max' if first else 'min') if op in ('>', '>=') else None
                if kind:
                    sub_ = {k_: fn.rd(v_, plain=True) for k_, v_ in ()}
                    both = {lx.show(_plain_ir(fn, ca)), lx.show(_plain_ir(fn, cb))}
                    mm = (kind, both)
        if mm is None:
            v = {lx.show(P(d))}
            lo_d, up_d = v, set(v)
        else:
            lo_d, up_d = (set(), mm[1]) if mm[0] == 'min' else (mm[1], set())
        lows = lo_d if lows is None else lows & lo_d
        ups = up_d if ups is None else ups & up_d
    lows, ups = set(lows or ()), set(ups or ())
    sp_site = cu._span(site)
    for x, n in clamps:
        sp = cu._span(n)
        later_defs = [d for d in defs if cu._span(d) and sp and cu._span(d)[0] > sp[0]]
        if sp and sp_site and sp[1] <= sp_site[0] and not later_defs:
            ups.add(x)
    return lows, ups


def _plain_ir(fn: Fn, ir: lx.IR) -> lx.IR:
    """an IR expression in the plain reading (locals with a plain single definition substituted)"""
    if isinstance(ir, tuple):
        if ir and ir[0] == 'sym':
            ds = fn.defs.get(ir[1], [])
            if len(ds) == 1 and ir[1] not in fn.cu.params(fn.name) and ir[1] not in getattr(fn, '_modified', set()) and not any(
                    x.get('kind') in ('ConditionalOperator', 'CallExpr') for x in walk(ds[0])):
                return fn.rd(ds[0], plain=True)
            return ir
        return tuple(_plain_ir(fn, x) for x in ir)
    if isinstance(ir, list):
        return [_plain_ir(fn, x) for x in ir]
    return ir


def _memrange_proof(cu: CUnit, fn: Fn, c: Dict[str, Any]) -> Optional[str]:
    """memset / memcpy into the flat window, proved from the code, whatever the locals are called: the destination is FLAT + A with
    FLAT the member that received malloc(W * sizeof(elem)); the byte count is (B - A) * sizeof(elem); A < B is known at the call;
    B <= W by B's definitions (a min() with W, or a clamp `if (B > W) B = W`). a memcpy source SRC + (A - P) out of a page of
    PAGE_WORDS words additionally needs P <= A (A is a max() with P) and B <= E for a local E defined as P + PAGE_WORDS.
    A and B are the locals as the call names them (through pointer-naming locals); everything else is compared in the plain
    reading."""
    a = call_args(c)
    fn.rd(a[0])                                         # (initialises the modified-locals set)
    d0, cnt = fn.rd(a[0], plain=True), fn.rd(a[2], plain=True)
    # keep A and B symbolic: re-read with only pointer / size naming locals substituted
    def shallow(n: Dict[str, Any]) -> lx.IR:
        ir = c_ir(n, cu.src_of)
        for _ in range(3):
            if ir[0] == 'sym' and len(fn.defs.get(ir[1], [])) == 1 and ir[1] not in cu.params(fn.name):
                ir = c_ir(fn.defs[ir[1]][0], cu.src_of)
        return ir
    d0, cnt = shallow(a[0]), shallow(a[2])
    if not (d0[0] == 'bin' and d0[1] == '+' and cnt[0] == 'bin' and cnt[1] == '*'):
        return None
    flat, A = d0[2], d0[3]
    span, sz = (cnt[2], cnt[3]) if cnt[3][0] == 'other' else (cnt[3], cnt[2])
    if not (sz[0] == 'other' and str(sz[1]).startswith('sizeof(') and span[0] == 'bin' and span[1] == '-' and span[3] == A):
        return None
    B = span[2]
    if A[0] != 'sym' or B[0] != 'sym':
        return None
    facts = {(op, lx.show(x), lx.show(y)) for op, x, y in fn.atomic_facts(c)}
    if ('<', A[1], B[1]) not in facts and ('>', B[1], A[1]) not in facts:
        return None
    # the capacity of the destination: the count of the malloc assigned to that member in this function
    W = None
    for n in walk(cu.body(fn.name)):
        if is_assign(n) and lx.show(c_ir(n['inner'][0], cu.src_of)) == lx.show(flat):
            for m_ in walk(n['inner'][1]):
                if m_.get('kind') == 'CallExpr' and callee(m_) == 'malloc':
                    pr = fn.rd(call_args(m_)[0], plain=True)
                    if pr[0] == 'bin' and pr[1] == '*' and sz in (pr[2], pr[3]):
                        W = lx.show(pr[3] if pr[2] == sz else pr[2])
    if W is None:
        return None
    _lb, ub = _value_bounds(cu, fn, B[1], c)
    if W not in ub:
        return None
    txt = f'range [{A[1]}, {B[1]}) of {lx.show(flat)} ({W} elements): {A[1]} < {B[1]} at the call and {B[1]} <= {W} by its definitions {sorted(ub)[:3]}'
    if callee(c) == 'memcpy':
        s0 = shallow(a[1])
        if not (s0[0] == 'bin' and s0[1] == '+' and s0[3][0] == 'bin' and s0[3][1] == '-' and s0[3][2] == A and s0[3][3][0] == 'sym'):
            return None
        Pn = s0[3][3][1]
        Pv = lx.show(_plain_ir(fn, s0[3][3]))
        la, _ = _value_bounds(cu, fn, A[1], c)
        try:
            pw = cu.macro_int('PAGE_WORDS')
        except AnalysisError:
            return None
        ends = [u for u in ub if u in (f'({Pv}+{pw})', f'({pw}+{Pv})', f'({Pv}+PAGE_WORDS)', f'(PAGE_WORDS+{Pv})')]
        if not ({Pn, Pv} & la) or not ends or not lx.show(s0[2]).endswith('.words'):
            return None
        txt += f'; source offset {A[1]} - {Pn} in [0, PAGE_WORDS): {Pn} <= {A[1]} and {B[1]} <= {ends[0]} = {Pn} + PAGE_WORDS'
    return txt


# ---------------------------------------------------------------- C11.OVERFLOW / ALLOC / SHIFT

def rule_overflow(rep: Report, cu: CUnit) -> None:
    rep.rule('C11.OVERFLOW', 'range sums are wrap-tested before use (add_segment, set_words); the flat allocation size is '
             'tested against SIZE_MAX/sizeof before the multiplication in malloc; other sized allocations use calloc(n, size)', 4)
    for fname, test, use in (('Memory_add_segment', 'start_word + length_words < start_word', 'start_word + length_words'),
                             ('Memory_set_words', 'start_word + (uint64_t)count < start_word', 'start_word + (uint64_t)count')):
        fn = Fn(cu, fname)
        tests = [n for n in fn.g.nodes if n.kind == 'cond' and cu.src_of(n.ast) == test]
        ok = bool(tests)
        if ok:
            t = tests[0]
            rets = [m for m, lab in fn.g.succ[t.id] if lab == 'T']
            # every later use of the sum is on the F side
            for node in fn.g.nodes:
                if isinstance(node.ast, dict) and node.kind in ('stmt', 'cond') and node.id != t.id and use in cu.src_of(node.ast):
                    facts = {(cid, pol) for cid, pol in (fn.IN.get(node.id) or frozenset())}
                    if (t.id, 'F') not in facts:
                        ok = False
        rep.check(ok, 'C11.OVERFLOW', f'{fname}:wrap-test', f'`{test}` rejects before any use of the sum' if ok else
                  'wrap test missing or a use of the sum is not dominated by it', cu.site(cu.func(fname)))
    fn = Fn(cu, 'mem_decide_storage')
    prod = ('(low_max_end*sizeof(uint64_t))', '(sizeof(uint64_t)*low_max_end)')
    mal = [n for n in fn.g.nodes if isinstance(n.ast, dict) and n.kind in ('stmt', 'cond') and any(
        c.get('kind') == 'CallExpr' and callee(c) == 'malloc' and lx.show(fn.rd(call_args(c)[0])) in prod for c in walk(n.ast))]
    ok = False
    if mal:
        # a dominating fact that reads `low_max_end <= SIZE_MAX / sizeof(uint64_t)`, however the test is turned
        def bounds_it(ir: lx.IR, pol: str) -> bool:
            if ir[0] != 'cmp' or len(ir[1]) != 1:
                return False
            op, (a_, b_) = ir[1][0], ir[2]
            if lx.show(b_) == 'low_max_end':
                a_, b_, op = b_, a_, {'<': '>', '>': '<', '<=': '>=', '>=': '<='}.get(op, op)
            quot = b_[0] == 'bin' and b_[1] == '/' and b_[2] == ('num', (1 << 64) - 1) and b_[3] == ('other', 'sizeof(uint64_t)')
            return lx.show(a_) == 'low_max_end' and quot and ((op == '>' and pol == 'F') or (op == '<=' and pol == 'T'))
        ok = any(bounds_it(fn.rd(fn.g.nodes[cid].ast), pol) for cid, pol in (fn.IN.get(mal[0].id) or frozenset()))
    rep.check(ok, 'C11.OVERFLOW', 'mem_decide_storage:malloc-size', 'size test dominates the multiplication', cu.site(cu.func('mem_decide_storage')))
    others = []
    for name in cu.funcs:
        for c in walk(cu.body(name)):
            if c.get('kind') == 'CallExpr' and callee(c) == 'malloc' and '*' in cu.src_of(c) and name != 'mem_decide_storage':
                others.append(f'{name}: {cu.src_of(c)}')
    rep.check(not others, 'C11.OVERFLOW', 'other-malloc-products', f'{others}', cu.rel, expected='no other malloc(n * size)')
    # realloc product: capacity doubles from a Py_ssize_t count of 16-byte records; bounded by the number of add_segment calls
    rl = []
    for name in cu.funcs:
        f_ = None
        for c in walk(cu.body(name)):
            if c.get('kind') == 'CallExpr' and callee(c) == 'realloc':
                f_ = f_ or Fn(cu, name)
                rl.append(f'realloc({lx.show(f_.rd(call_args(c)[0]))}, {lx.show(f_.rd(call_args(c)[1]))})')
    rep.check(rl in (['realloc(self.segments, (new_capacity*sizeof(SegmentRange)))'], ['realloc(self.segments, (sizeof(SegmentRange)*new_capacity))']),
              'C11.OVERFLOW', 'realloc', str(rl), cu.rel, expected='one realloc, capacity doubling')


def strip_casts(n: Dict[str, Any]) -> Dict[str, Any]:
    while n.get('kind') in ('ImplicitCastExpr', 'ParenExpr', 'CStyleCastExpr') and n.get('inner'):
        n = [c for c in n['inner'] if isinstance(c, dict) and c.get('kind')][-1]
    return n


def _null_tests(v: Optional[str]) -> Set[str]:
    """the spellings of `v is NULL` (spaces removed)"""
    v = (v or '').replace(' ', '')
    return {f'!{v}', f'{v}==NULL', f'NULL=={v}', f'{v}==0', f'!({v})'}


def rule_alloc(rep: Report, cu: CUnit) -> None:
    rep.rule('C11.ALLOC', 'every malloc/calloc/realloc result is NULL-tested before use, the failure path sets a Python error '
             '(or takes the documented paged fallback), and realloc is assigned to a temporary', 7)
    n_sites = 0
    # allocators: the three libc functions and every unit-local wrapper whose value is the result of one (`return calloc(n, 8);`):
    # a call of a wrapper is an allocation site like any other
    allocators: Set[str] = {'malloc', 'calloc', 'realloc'}
    wrappers: Set[str] = set()
    for _ in range(2):
        for name in cu.funcs:
            rets = [r for r in walk(cu.body(name)) if r.get('kind') == 'ReturnStmt' and r.get('inner')]
            if rets and all(strip_casts(r['inner'][0]).get('kind') == 'CallExpr' and callee(strip_casts(r['inner'][0])) in allocators for r in rets):
                wrappers.add(name)
                allocators.add(name)
    for name in cu.funcs:
        fn = Fn(cu, name, {'with_ring': 1} if name == 'run_paged_loop_impl' else {})
        g = fn.g
        for node in g.nodes:
            if node.kind not in ('stmt', 'cond') or not isinstance(node.ast, dict):
                continue
            cs = [c for c in walk(node.ast) if c.get('kind') == 'CallExpr' and callee(c) in allocators]
            if not cs:
                continue
            n_sites += 1
            # target of the assignment / declaration
            tgt = None
            for x in walk(node.ast):
                if is_assign(x):
                    tgt = cu.src_of(x['inner'][0])
                elif x.get('kind') == 'VarDecl' and x.get('inner'):
                    tgt = x['name']
            if node.kind == 'cond':
                # `if ((p = alloc(..)) == NULL)` / `if (!(p = alloc(..)))`: the test is the statement itself; read it with the
                # assignment replaced by its target
                txt0 = cu.src_of(node.ast).replace(' ', '')
                asg = [x for x in walk(node.ast) if is_assign(x) and any(c is y for c in cs for y in walk(x))]
                reduced = txt0.replace('(' + cu.src_of(asg[0]).replace(' ', '') + ')', (tgt or '').replace(' ', '')) if asg else txt0
                ok = reduced in _null_tests(tgt)
                nn = node
            else:
                nxt = [m for m, _ in g.succ[node.id]]
                nn = g.nodes[nxt[0]] if nxt else None
                while nn is not None and nn.kind == 'stmt' and isinstance(nn.ast, dict) and nn.ast.get('kind') == 'DeclStmt' \
                        and not any(v.get('inner') for v in nn.ast.get('inner', [])):
                    nn = g.nodes[g.succ[nn.id][0][0]]       # declaration without initialiser
                ok = nn is not None and nn.kind == 'cond' and cu.src_of(nn.ast).replace(' ', '') in _null_tests(tgt)
            handled = False
            if ok:
                t = [m for m, lab in g.succ[nn.id] if lab == 'T'][0]
                txt = []
                cur = t
                steps = 0
                while steps < 6:
                    a = g.nodes[cur].ast
                    if isinstance(a, dict):
                        txt.append(cu.src_of(a))
                    if g.nodes[cur].kind == 'return' or not g.succ[cur]:
                        break
                    cur = g.succ[cur][0][0]
                    steps += 1
                handled = any('PyErr_NoMemory' in s for s in txt) or any('running paged' in s for s in txt)
            if callee(cs[0]) == 'realloc':
                ok = ok and tgt != cu.src_of(call_args(cs[0])[0])
            rep.check(ok and handled, 'C11.ALLOC', f'{name}:{"calloc" if callee(cs[0]) in wrappers else callee(cs[0])}->{tgt}',
                      f'NULL test next={ok}, failure handled={handled}', cu.site(node.ast, name),
                      expected='if (!p) { PyErr_NoMemory / documented fallback }')
    if n_sites < 7:
        raise AnalysisError(f'C11.ALLOC: {n_sites} allocation sites found, 7 expected')
    # element size: the type under every sizeof of an allocation (or of a mem* byte count) is the element type of the pointer
    # the block is used through - `calloc(n, sizeof(p))` with p a pointer allocates n pointers, not n elements
    def pointee(q: str) -> Optional[str]:
        q = q.replace('const ', '').replace('volatile ', '').strip()
        return q[:-1].strip() if q.endswith('*') else None
    def unsugar(n: Dict[str, Any]) -> Dict[str, Any]:
        while n.get('kind') in ('ImplicitCastExpr', 'ParenExpr') and n.get('inner'):
            n = n['inner'][0]
        return n
    n_elem = 0
    for name in cu.funcs:
        body = cu.body(name)
        for c in [x for x in walk(body) if x.get('kind') == 'CallExpr' and callee(x) in ('malloc', 'calloc', 'realloc', 'memset', 'memcpy', 'memmove')]:
            kind = callee(c)
            if kind in ('malloc', 'calloc', 'realloc'):
                par = cu.parent(c)
                while isinstance(par, dict) and par.get('kind') in ('ParenExpr', 'ImplicitCastExpr'):
                    par = cu.parent(par)
                want = pointee(par.get('type', {}).get('qualType', '')) if isinstance(par, dict) and par.get('kind') == 'CStyleCastExpr' else None
                if want is None and isinstance(par, dict) and par.get('kind') == 'VarDecl':
                    want = pointee(par.get('type', {}).get('qualType', ''))
                size_args = call_args(c)[1:] if kind == 'realloc' else call_args(c)
            else:
                want = pointee(unsugar(call_args(c)[0]).get('type', {}).get('qualType', ''))
                size_args = call_args(c)[2:]
            if want in (None, 'void', 'char', 'unsigned char', 'uint8_t'):
                continue
            sizes = []
            for a in size_args:
                for u in walk(a):
                    if u.get('kind') == 'UnaryExprOrTypeTraitExpr' and u.get('name') == 'sizeof':
                        t = u.get('argType', {}).get('qualType')
                        if t is None and u.get('inner'):
                            t = unsugar(u['inner'][0]).get('type', {}).get('qualType')
                        sizes.append((t or '?').replace('const ', '').strip())
            n_elem += 1
            rep.check(bool(sizes) and all(t == want for t in sizes), 'C11.ALLOC', f'{name}:{kind}:element size of {want}',
                      f'sizeof operand type(s) {sizes}', cu.site(c, name), expected=f'sizeof({want}) - the element type of the pointer')
    if n_elem < 7:
        raise AnalysisError(f'C11.ALLOC: {n_elem} typed allocation / mem* sites found, 7 expected')


_WLin = Tuple[int, int]          # (coefficient of w, constant): the value coef * w + const


def _amount_bounds(cu: CUnit, fn: 'Fn', site_node: Dict[str, Any], ir: lx.IR, depth: int = 0) -> Optional[Tuple[_WLin, _WLin]]:
    """[lo, hi] of a shift amount, each bound linear in the width w (so `w - (x & (w - 1))` keeps its correlation): w / width is
    w itself, ww in [3, 6], macro constants, `x & m` in [0, hi(m)], single-definition locals read through, and the facts that
    dominate the shift (a variable known non-zero starts at 1). None: not bounded by these."""
    if depth > 6:
        return None
    t = ir[0]
    facts = fn.atomic_facts(site_node)

    def known_nonzero(name: str) -> bool:
        return any((op == 'truthy' and lx.show(a) == name) or (op == '!=' and lx.show(a) == name and b == ('num', 0)) for op, a, b in facts)
    if t == 'num':
        return (0, ir[1]), (0, ir[1])
    name = lx.show(ir) if t in ('sym', 'attr') else None
    if name is not None:
        base = name.split('.')[-1]
        if base in ('w', 'width') and (t == 'attr' or name in cu.params(fn.name) or name not in fn.defs):
            return (1, 0), (1, 0)
        if base == 'ww' and (t == 'attr' or name in cu.params(fn.name) or name not in fn.defs):
            return (0, 3), (0, 6)
        if t == 'sym' and name in cu.macros:
            try:
                v = cu.macro_int(name)
                return (0, v), (0, v)
            except AnalysisError:
                return None
        if t == 'sym':
            ds = fn.defs.get(name) or []
            if len(ds) == 1:
                b = _amount_bounds(cu, fn, site_node, c_ir(ds[0], cu.src_of), depth + 1)
                if b is not None and known_nonzero(name) and b[0] == (0, 0):
                    b = ((0, 1), b[1])
                return b
        return None
    if t == 'bin':
        a = _amount_bounds(cu, fn, site_node, ir[2], depth + 1)
        b = _amount_bounds(cu, fn, site_node, ir[3], depth + 1)
        if ir[1] == '&':
            his = [x[1] for x in (a, b) if x is not None and min(x[0][0] * w_ + x[0][1] for w_ in (8, 64)) >= 0]      # a non-negative operand bounds the result
            if not his:
                return None
            lo0 = 1 if known_nonzero(lx.show(ir)) else 0          # the masked value itself is known non-zero here
            return (0, lo0), min(his, key=lambda h: h[0] * 64 + h[1])
        if a is None or b is None:
            return None
        if ir[1] == '-':
            return (a[0][0] - b[1][0], a[0][1] - b[1][1]), (a[1][0] - b[0][0], a[1][1] - b[0][1])
        if ir[1] == '+':
            return (a[0][0] + b[0][0], a[0][1] + b[0][1]), (a[1][0] + b[1][0], a[1][1] + b[1][1])
    return None


def _numeric(b: Tuple[_WLin, _WLin], w_hi: int) -> Tuple[int, int]:
    lo = min(b[0][0] * w + b[0][1] for w in (8, w_hi))
    hi = max(b[1][0] * w + b[1][1] for w in (8, w_hi))
    return lo, hi


def rule_shift(rep: Report, cu: CUnit) -> None:
    rep.rule('C11.SHIFT', 'every shift amount is provably in [0, 63]: interval arithmetic over literals and macro constants, the width '
             '(8..64, at most 32 under a `!= 64` fact) and its log (3..6), `x & (w - 1)` style masks, single-definition locals, and '
             'the facts dominating the shift (an offset known non-zero makes `w - offset` at most 63)', 40)
    for name in cu.funcs:
        fn = None
        for n in walk(cu.body(name)):
            if n.get('kind') != 'BinaryOperator' or n.get('opcode') not in ('<<', '>>'):
                continue
            amt = n['inner'][1]
            v = int_value(amt)
            site = cu.site(n, name)
            construct = f'{name}:{cu.src_of(n)[:60]}'
            if v is not None:
                rep.check(0 <= v < 64, 'C11.SHIFT', construct, f'literal shift {v}', site)
                continue
            if fn is None:
                fn = Fn(cu, name, {'with_ring': 1} if name == 'run_paged_loop_impl' else {})
            b = _amount_bounds(cu, fn, n, c_ir(amt, cu.src_of))
            # the width is at most 64, at most 32 where a `w != 64` fact dominates the shift
            w_names = {lx.show(x) for x in [c_ir(amt, cu.src_of)] + [c_ir(d, cu.src_of) for ds in fn.defs.values() for d in ds]
                       for x in [x]}
            w_hi = 32 if any(op == '!=' and lx.show(a).split('.')[-1] in ('w', 'width') and bb == ('num', 64) for op, a, bb in fn.atomic_facts(n)) else 64
            nb = _numeric(b, w_hi) if b is not None else None
            if nb is not None and 0 <= nb[0] and nb[1] <= 63:
                rep.ok('C11.SHIFT', construct, f'amount {cu.src_of(amt)} in [{nb[0]}, {nb[1]}]', site)
            else:
                rep.fail('C11.SHIFT', construct, f'shift amount {cu.src_of(amt)} not bounded below 64 (interval {nb})', site)


# ---------------------------------------------------------------- C11.OWNERSHIP / ERRORS

NEW_REF = {'PyLong_FromUnsignedLongLong', 'PyList_New', 'PyObject_CallFunctionObjArgs', 'PyObject_CallNoArgs',
           'PySequence_GetItem', 'PyType_FromSpec', 'PyModule_Create2', 'PyModule_Create', 'PyFloat_FromDouble',
           'PyUnicode_FromString', '_Py_BuildValue_SizeT', 'Py_BuildValue', 'PyErr_NoMemory'}


def rule_ownership(rep: Report, cu: CUnit) -> None:
    rep.rule('C11.OWNERSHIP', 'may-dataflow of owned references per function: a new reference held in a local is released '
             '(Py_DECREF/XDECREF), returned, or stolen ("N" format, successful PyModule_AddObject) on every path to a '
             'return; borrowed singletons are INCREF\'d before being handed out; the last-ops ring is freed exactly once', 8)
    for name in cu.funcs:
        body = cu.body(name)
        locals_new: Set[str] = set()
        for n in walk(body):
            tgt, val = None, None
            if is_assign(n):
                l0 = strip(n['inner'][0])
                if l0.get('kind') == 'DeclRefExpr':
                    tgt, val = l0['referencedDecl']['name'], n['inner'][1]
            elif n.get('kind') == 'VarDecl' and n.get('inner'):
                init = [c for c in n['inner'] if isinstance(c, dict) and c.get('kind')]
                if init:
                    tgt, val = n['name'], init[-1]
            if tgt and val is not None:
                v = strip(val)
                if v.get('kind') == 'CallExpr' and callee(v) in NEW_REF:
                    locals_new.add(tgt)
        if not locals_new:
            continue
        g = build_c_cfg(cu, name, {'with_ring': 1} if name == 'run_paged_loop_impl' else {})
        # may-analysis: set of owned locals
        from collections import deque
        IN: Dict[int, Set[frozenset]] = {g.entry: {frozenset()}}
        work = deque([g.entry])
        leaks: List[Tuple[int, Set[str]]] = []
        double: List[Tuple[int, str]] = []
        while work:
            nid = work.popleft()
            node = g.nodes[nid]
            for state in list(IN[nid]):
                outs = _own_transfer(cu, g, node, state, locals_new, double)
                for lab, st in outs:
                    for m, l in g.succ[nid]:
                        if lab is not None and l != lab:
                            continue
                        if m not in IN:
                            IN[m] = set()
                        if st not in IN[m]:
                            if len(IN[m]) > 64:
                                raise AnalysisError(f'{name}: ownership state explosion')
                            IN[m].add(st)
                            work.append(m)
                if node.kind == 'return':
                    ret = strip(node.ast['inner'][0]) if node.ast.get('inner') else {}
                    rv = ret['referencedDecl']['name'] if ret.get('kind') == 'DeclRefExpr' else None
                    post = outs[0][1] if outs else state
                    left = set(post) - ({rv} if rv else set())
                    if left:
                        leaks.append((nid, left))
        ok = not leaks and not double
        detail = 'all new references released/returned/stolen on every path'
        if leaks:
            nid, left = leaks[0]
            detail = f'reference(s) {sorted(left)} still owned at return {cu.site(g.nodes[nid].ast, name)}'
        if double:
            detail = f'{double[0][1]} released while not owned at {cu.site(g.nodes[double[0][0]].ast, name)}'
        rep.check(ok, 'C11.OWNERSHIP', f'{name}:refs', detail + f' (tracked: {sorted(locals_new)})', cu.site(cu.func(name), name))
    # a stored (borrowed) object member handed out as a return value: the caller receives a NEW reference, so the member is
    # INCREF'd on every path to that return (or passed through Py_NewRef / Py_XNewRef)
    from ..pycfg import must_dataflow
    n_borrowed = 0
    for name in cu.funcs:
        if not cu.func(name).get('type', {}).get('qualType', '').startswith('PyObject *('):
            continue
        g2 = None
        for r in [x for x in walk(cu.body(name)) if x.get('kind') == 'ReturnStmt' and x.get('inner')]:
            def leaves(e: Dict[str, Any]) -> List[Dict[str, Any]]:
                e = strip(e)
                if e.get('kind') == 'ConditionalOperator':
                    return leaves(e['inner'][1]) + leaves(e['inner'][2])
                return [e]
            from ..cfacts import local_defs as _ld
            defs_n = _ld(cu, name)

            def names_member(a_: Dict[str, Any]) -> bool:
                # the member itself, or a local whose one definition is the member (`PyObject* kept = self->list;`)
                if any(m_.get('kind') == 'MemberExpr' for m_ in walk(a_)):
                    return True
                for a0 in walk(a_):             # through the casts / parentheses the reference macros add
                    if a0.get('kind') == 'DeclRefExpr' and a0.get('referencedDecl', {}).get('kind') == 'VarDecl':
                        ds = [d for d in defs_n.get(a0['referencedDecl']['name'], []) if d is not None]
                        if len(ds) == 1 and strip(ds[0]).get('kind') == 'MemberExpr':
                            return True
                return False
            for lf in leaves(r['inner'][0]):
                if lf.get('kind') == 'CallExpr' and callee(lf) in ('Py_NewRef', 'Py_XNewRef', '_Py_NewRef', '_Py_XNewRef') and any(names_member(a_) for a_ in call_args(lf)):
                    n_borrowed += 1
                    rep.ok('C11.OWNERSHIP', f'{name}:return {cu.src_of(lf).replace(" ", "")}', 'handed out through Py_NewRef (a new reference)', cu.site(r, name))
                    continue
                if lf.get('kind') != 'MemberExpr' or 'PyObject' not in lf.get('type', {}).get('qualType', ''):
                    continue
                n_borrowed += 1
                member = cu.src_of(lf).replace(' ', '')
                if g2 is None:
                    g2 = build_c_cfg(cu, name)

                def gen_kill(node: Any, lab: Optional[str], member: str = member) -> Tuple[Set[str], Set[str]]:
                    a = node.ast
                    if isinstance(a, dict) and node.kind in ('stmt', 'cond'):
                        # Py_INCREF is a macro: the statement's source range is only its name, so the call is read from the tree
                        for c in walk(a):
                            if c.get('kind') == 'CallExpr' and callee(c) in ('Py_INCREF', 'Py_XINCREF', '_Py_INCREF', '_Py_XINCREF', 'Py_NewRef', 'Py_XNewRef'):
                                margs = [lx.show(c_ir(m_, cu.src_of)) for arg in call_args(c) for m_ in walk(arg) if m_.get('kind') == 'MemberExpr']
                                if member.replace('->', '.') in margs:
                                    return {'inc'}, set()
                    return set(), set()
                IN2 = must_dataflow(g2, g2.entry, gen_kill)
                rnode = [nd for nd in g2.nodes if nd.kind == 'return' and nd.ast is r]
                held = bool(rnode) and 'inc' in (IN2.get(rnode[0].id) or frozenset())
                rep.check(held, 'C11.OWNERSHIP', f'{name}:return {member}', 'INCREF on every path to the return' if held else
                          'the stored object is returned without a new reference: the caller\'s DECREF frees it while the engine object still points at it',
                          cu.site(r, name), expected=f'Py_INCREF({member}) before it is handed out')
    if n_borrowed < 1:
        raise AnalysisError('C11.OWNERSHIP: no getter hands out a stored object any more (the rule instance vanished)')
    # Py_None handed out only after INCREF / via Py_RETURN_NONE
    for name in cu.funcs:
        for n in walk(cu.body(name)):
            if is_assign(n) and cu.src_of(n['inner'][1]) == 'Py_None':
                par = cu.parent(n)
                sibs = [cu.src_of(x) for x in (par or {}).get('inner', [])]
                rep.check(any(x.startswith('Py_INCREF') for x in sibs), 'C11.OWNERSHIP', f'{name}:Py_None', f'siblings {sibs}', cu.site(n, name),
                          expected='Py_INCREF(Py_None) next to the assignment')
    # ring: freed exactly once on every path of Memory_run (build_run_result takes ownership)
    g = build_c_cfg(cu, 'Memory_run')
    bad = []
    from collections import deque
    INr: Dict[int, Set[str]] = {g.entry: {'none'}}
    work = deque([g.entry])
    while work:
        nid = work.popleft()
        node = g.nodes[nid]
        for st in list(INr[nid]):
            new = st
            if isinstance(node.ast, dict) and node.kind in ('stmt', 'return', 'cond'):
                t = cu.src_of(node.ast)
                if 'calloc((size_t)last_ops_length' in t:
                    new = 'owned'
                for c in walk(node.ast):
                    if c.get('kind') == 'CallExpr' and callee(c) == 'free' and cu.src_of(call_args(c)[0]) == 'last_ops_ring':
                        if st == 'freed':
                            bad.append(f'double free at {cu.site(node.ast)}')
                        new = 'freed'
                    if c.get('kind') == 'CallExpr' and callee(c) == 'build_run_result' and 'last_ops_ring' in cu.src_of(c):
                        if st == 'freed':
                            bad.append(f'use after free at {cu.site(node.ast)}')
                        new = 'freed'
            if node.kind == 'return' and new == 'owned':
                bad.append(f'ring leaked at {cu.site(node.ast)}')
            # a NULL test of the ring (`!ring`, `ring == NULL`, also with the allocation embedded: `(ring = calloc(..)) == NULL`)
            # leaves nothing owned on the edge where the pointer is NULL
            null_edge = None
            if node.kind == 'cond' and isinstance(node.ast, dict):
                txt0 = cu.src_of(node.ast).replace(' ', '')
                for x in walk(node.ast):
                    if is_assign(x) and cu.src_of(x['inner'][0]) == 'last_ops_ring':
                        txt0 = txt0.replace('(' + cu.src_of(x).replace(' ', '') + ')', 'last_ops_ring')
                if txt0 in _null_tests('last_ops_ring'):
                    null_edge = 'T'
                elif txt0 in ('last_ops_ring', 'last_ops_ring!=NULL', 'NULL!=last_ops_ring', 'last_ops_ring!=0'):
                    null_edge = 'F'
            for m, lab in g.succ[nid]:
                out_st = 'none' if (new == 'owned' and null_edge is not None and lab == null_edge) else new
                if m not in INr:
                    INr[m] = set()
                if out_st not in INr[m]:
                    INr[m].add(out_st)
                    work.append(m)
    rep.check(not bad, 'C11.OWNERSHIP', 'Memory_run:last_ops_ring', 'freed exactly once on every path' if not bad else str(bad[:3]),
              cu.site(cu.func('Memory_run')))
    frees = [cu.src_of(c) for c in walk(cu.body('build_run_result')) if c.get('kind') == 'CallExpr' and callee(c) == 'free']
    gb = build_c_cfg(cu, 'build_run_result')
    # every path of build_run_result frees the ring once (or it is NULL)
    INb: Dict[int, Set[Tuple[int, bool]]] = {gb.entry: {(0, False)}}
    work = deque([gb.entry])
    badb = []
    while work:
        nid = work.popleft()
        node = gb.nodes[nid]
        for cnt, isnull in list(INb[nid]):
            new = cnt
            if isinstance(node.ast, dict) and node.kind in ('stmt', 'cond', 'return'):
                new += sum(1 for c in walk(node.ast) if c.get('kind') == 'CallExpr' and callee(c) == 'free')
            if node.kind == 'return':
                if new > 1 or (new == 0 and not isnull):
                    badb.append(f'{new} frees on a path to {cu.site(node.ast)}')
            for m, lab in gb.succ[nid]:
                nul = isnull or (node.kind == 'cond' and isinstance(node.ast, dict)
                                 and cu.src_of(node.ast) == 'last_ops_ring' and lab == 'F')
                INb.setdefault(m, set())
                if (new, nul) not in INb[m] and new < 4:
                    INb[m].add((new, nul))
                    work.append(m)
    rep.check(not badb, 'C11.OWNERSHIP', 'build_run_result:ring-free', 'one free per path (or NULL ring)' if not badb else str(badb[:3]),
              cu.site(cu.func('build_run_result')))


def _own_transfer(cu: CUnit, g: Graph, node: Node, state: frozenset, tracked: Set[str],
                  double: List[Tuple[int, str]]) -> List[Tuple[Optional[str], frozenset]]:
    a = node.ast
    if not isinstance(a, dict) or node.kind not in ('stmt', 'cond', 'return'):
        return [(None, state)]
    st = set(state)
    for n in walk(a):
        k = n.get('kind')
        if k == 'CallExpr':
            cn = callee(n)
            args = call_args(n)
            if cn in ('Py_DECREF', 'Py_XDECREF', 'Py_DecRef', '_Py_DECREF', 'Py_XDecRef') or 'DECREF' in cn.upper():
                v = strip(args[0])
                if v.get('kind') == 'DeclRefExpr':
                    nm = v['referencedDecl']['name']
                    if nm in tracked:
                        if nm not in st and 'X' not in cn.upper():
                            double.append((node.id, nm))
                        st.discard(nm)
            elif 'Py_BuildValue' in cn:
                fmt = [s['value'][1:-1] for s in walk(args[0]) if s.get('kind') == 'StringLiteral']
                codes = [ch for ch in (fmt[0] if fmt else '') if ch.isalpha()]
                for code, arg in zip(codes, args[1:]):
                    v = strip(arg)
                    if code == 'N' and v.get('kind') == 'DeclRefExpr':
                        st.discard(v['referencedDecl']['name'])
        tgt, val = None, None
        if is_assign(n):
            l0 = strip(n['inner'][0])
            if l0.get('kind') == 'DeclRefExpr':
                tgt, val = l0['referencedDecl']['name'], n['inner'][1]
        elif k == 'VarDecl' and n.get('inner'):
            init = [c for c in n['inner'] if isinstance(c, dict) and c.get('kind')]
            if init:
                tgt, val = n['name'], init[-1]
        if tgt in tracked and val is not None:
            v = strip(val)
            if v.get('kind') == 'CallExpr' and callee(v) in NEW_REF:
                st.add(tgt)
    if node.kind == 'cond':
        txt = cu.src_of(a).replace(' ', '')
        outs: List[Tuple[Optional[str], frozenset]] = []
        t_state, f_state = set(st), set(st)
        for v in tracked:
            if txt in _null_tests(v):
                t_state.discard(v)
            if txt in (v, f'{v}!=NULL', f'NULL!={v}', f'{v}!=0'):
                f_state.discard(v)
            if txt.startswith(f'!{v}||'):
                pass          # may be NULL or not: XDECREF follows
        if txt.startswith('PyModule_AddObject(') and txt.endswith('<0'):
            # success (F edge) steals the object reference
            for c in walk(a):
                if c.get('kind') == 'CallExpr' and callee(c) == 'PyModule_AddObject':
                    v = strip(call_args(c)[2])
                    if v.get('kind') == 'DeclRefExpr':
                        f_state.discard(v['referencedDecl']['name'])
        return [('T', frozenset(t_state)), ('F', frozenset(f_state))]
    return [(None, frozenset(st))]


_REF_MACROS = ('Py_CLEAR', 'Py_SETREF', 'Py_XSETREF')


def rule_member_refs(rep: Report, cu: CUnit) -> None:
    """typestate of every object-reference MEMBER of the unit's structs, over the statement graph of every function that touches it
    (helpers that receive the object are entered with the caller's state): the reference a member owns is dropped exactly once."""
    rep.rule('C11.MEMBER-REF', 'every `PyObject*` member of a struct of the unit owns one reference: a store into it happens only when '
             'the old reference is gone (Py_CLEAR / Py_XSETREF, or the old value was saved in a local that is released); a release '
             'that does not clear the member (Py_DECREF / Py_XDECREF) is only left behind by the tp_dealloc function, is never '
             'followed by a second release (also through a helper), and the tp_dealloc function leaves no member holding one', 3)
    fields: List[str] = []
    for n in cu.tu['inner']:
        if n.get('kind') == 'RecordDecl':
            fields += [f['name'] for f in n.get('inner', []) if f.get('kind') == 'FieldDecl'
                       and f.get('type', {}).get('qualType', '').replace(' ', '') == 'PyObject*']
    if not fields:
        raise AnalysisError('C11.MEMBER-REF: no PyObject* member found in the structs of _fjcore.c (last_run_last_ops expected)')
    slot_src = ' '.join(cu.src_of(v) for k_, v in cu.vars.items() if 'slots' in k_)
    md = re.search(r'Py_tp_dealloc\s*,\s*(?:\(\s*void\s*\*\s*\)\s*)?(\w+)', slot_src)
    if not md or md.group(1) not in cu.funcs:
        raise AnalysisError('C11.MEMBER-REF: the Py_tp_dealloc slot of the type was not found')
    dealloc = md.group(1)

    def is_member(e: Dict[str, Any], f: str) -> bool:
        e = strip(e)
        return e.get('kind') == 'MemberExpr' and e.get('name') == f

    def macro_of(n: Dict[str, Any]) -> Optional[str]:
        t = cu._raw_src(n).strip()
        return t if t in _REF_MACROS else None

    from collections import deque
    State = Tuple[str, int]            # (held | null | dangling, 0 | 1 = a local equals the member | 2 = a local keeps the replaced reference)
    summaries: Dict[Tuple[str, str, State], Set[State]] = {}
    problems: Dict[str, List[Tuple[str, str]]] = {f: [] for f in fields}

    def touches(fname: str, f: str, seen: Optional[Set[str]] = None) -> bool:
        seen = seen if seen is not None else set()
        if fname in seen:
            return False
        seen.add(fname)
        for n in walk(cu.body(fname)):
            if n.get('kind') == 'MemberExpr' and n.get('name') == f:
                return True
            if n.get('kind') == 'CallExpr' and callee(n) in cu.funcs and touches(callee(n), f, seen):
                return True
        return False

    def run(fname: str, f: str, entry: State, stack: Tuple[str, ...]) -> Set[State]:
        key = (fname, f, entry)
        if key in summaries:
            return summaries[key]
        if fname in stack:
            return {entry}
        summaries[key] = {entry}
        g = build_c_cfg(cu, fname)
        aliases: Set[str] = set()
        for n in walk(cu.body(fname)):
            if n.get('kind') == 'VarDecl' and n.get('inner'):
                init = [c for c in n['inner'] if isinstance(c, dict) and c.get('kind')]
                if init and is_member(init[-1], f):
                    aliases.add(n['name'])
            elif is_assign(n) and strip(n['inner'][0]).get('kind') == 'DeclRefExpr' and is_member(n['inner'][1], f):
                aliases.add(strip(n['inner'][0])['referencedDecl']['name'])
        IN: Dict[int, Set[State]] = {g.entry: {entry}}
        work = deque([g.entry])
        exits: Set[State] = set()

        def step(node: Node, st: State) -> Set[State]:
            a = node.ast
            if not isinstance(a, dict) or node.kind not in ('stmt', 'cond', 'return'):
                return {st}
            mac = macro_of(a)
            if mac:
                # one statement of the expansion anchors the macro: the declaration that takes the member's address (Py_CLEAR /
                # Py_SETREF keep `&(op)` in a temporary); the other statements of the expansion are its implementation
                if any(x.get('kind') == 'UnaryOperator' and x.get('opcode') == '&' and is_member(x['inner'][0], f) for x in walk(a)) \
                        and a.get('kind') == 'DeclStmt':
                    if st[0] == 'dangling':
                        problems[f].append((f'{fname}:{mac}', f'{mac}(..->{f}) after a release that left the member dangling: second release'))
                    return {('null' if mac == 'Py_CLEAR' else 'held', 0)}
                return {st}
            cur: Set[State] = {st}
            for n in walk(a):
                k = n.get('kind')
                nxt: Set[State] = set()
                for s0, cap in cur:
                    if k == 'CallExpr':
                        cn = callee(n)
                        args = call_args(n)
                        if 'DECREF' in cn.upper() or cn in ('Py_DecRef', 'Py_XDecRef'):
                            v = strip(args[0]) if args else {}
                            if is_member(v, f):
                                if s0 == 'dangling':
                                    problems[f].append((f'{fname}:{cn}', f'second release of ->{f} on a path (it was released, not cleared, before) at {cu.site(n, fname)}'))
                                nxt.add(('dangling', cap))
                                continue
                            if v.get('kind') == 'DeclRefExpr' and v['referencedDecl']['name'] in aliases:
                                if cap == 2:
                                    nxt.add((s0, 0))
                                    continue
                                if cap == 1:
                                    if s0 == 'dangling':
                                        problems[f].append((f'{fname}:{cn}', f'second release of ->{f} through the local {cu.src_of(v)} at {cu.site(n, fname)}'))
                                    nxt.add(('dangling', 0))
                                    continue
                        elif cn in cu.funcs and cn != fname and touches(cn, f):
                            for o in run(cn, f, (s0, 0), stack + (fname,)):
                                nxt.add((o[0], cap))
                            continue
                    elif is_assign(n) and is_member(n['inner'][0], f):
                        rhs = strip(n['inner'][1])
                        to_null = int_value(rhs) == 0 or cu.src_of(rhs) in ('NULL', '((void*)0)', '((void *)0)')
                        if s0 == 'held' and cap != 1:
                            problems[f].append((f'{fname}:store', f'`{cu.src_of(n)}` at {cu.site(n, fname)} overwrites the member while it may still own a '
                                                                f'reference (no Py_CLEAR / release of the old value on the path): the old object is leaked'))
                        nxt.add(('null' if to_null else 'held', 2 if (s0 == 'held' and cap == 1) else cap))
                        continue
                    elif ((k == 'VarDecl' and n.get('name') in aliases and n.get('inner')
                           and is_member([c for c in n['inner'] if isinstance(c, dict) and c.get('kind')][-1], f))
                          or (is_assign(n) and strip(n['inner'][0]).get('kind') == 'DeclRefExpr'
                              and strip(n['inner'][0])['referencedDecl']['name'] in aliases and is_member(n['inner'][1], f))):
                        nxt.add((s0, 1))
                        continue
                    nxt.add((s0, cap))
                cur = nxt
            return cur

        def null_edge(node: Node) -> Optional[str]:
            """the edge label on which the member is known to be NULL when this node is a NULL test of it (directly or of a local that
            equals it), else None"""
            a = node.ast
            if node.kind != 'cond' or not isinstance(a, dict):
                return None
            t = cu.src_of(a).replace(' ', '')
            subj = [f'self->{f}'] + [f'{al}' for al in aliases]
            for sj in subj:
                if t in (f'!{sj}', f'{sj}==NULL', f'NULL=={sj}', f'{sj}==0'):
                    return 'T'
                if t in (sj, f'{sj}!=NULL', f'NULL!={sj}', f'{sj}!=0'):
                    return 'F'
            return None
        while work:
            nid = work.popleft()
            node = g.nodes[nid]
            ne = null_edge(node)
            for st in list(IN[nid]):
                outs = step(node, st)
                if node.kind == 'return' or not g.succ[nid]:
                    exits |= outs
                for m, _lab in g.succ[nid]:
                    IN.setdefault(m, set())
                    for o in outs:
                        o2 = ('null', o[1]) if (ne is not None and _lab == ne and o[0] == 'held') else o
                        if o2 not in IN[m]:
                            IN[m].add(o2)
                            work.append(m)
        exits = exits or {entry}
        for s0, cap in exits:
            if cap == 2:
                problems[f].append((f'{fname}:exit', f'the local that kept the replaced value of ->{f} is not released on a path to the exit of {fname}'))
            if s0 == 'dangling' and fname != dealloc:
                problems[f].append((f'{fname}:exit', f'{fname} returns with ->{f} released but not cleared (only {dealloc}, after which the object '
                                                     f'is gone, may do that): the next release is a second one'))
        summaries[key] = {(s0, 0) for s0, _ in exits}
        return summaries[key]

    called = {callee(n) for fn_ in cu.funcs for n in walk(cu.body(fn_)) if n.get('kind') == 'CallExpr'}
    for f in fields:
        n_fn = 0
        for fname in cu.funcs:
            # a helper of the unit is judged where it is called, with the state its caller built (a store after the caller's Py_CLEAR)
            if fname in called or not (touches(fname, f) or fname == dealloc):
                continue
            n_fn += 1
            before = len(problems[f])
            outs = run(fname, f, ('held', 0), ())
            if fname == dealloc and any(s0 == 'held' for s0, _ in outs):
                problems[f].append((f'{dealloc}:exit', f'{dealloc} can end with ->{f} still owning its reference: leaked with the object'))
            mine = [d for c_, d in problems[f][before:]]
            rep.check(not mine, 'C11.MEMBER-REF', f'{fname}:->{f}', 'stores only over a cleared member; one release per path'
                      + (' and the member is released when the object dies' if fname == dealloc else '') if not mine else '; '.join(dict.fromkeys(mine)),
                      cu.site(cu.func(fname), fname))
        if n_fn < 2:
            raise AnalysisError(f'C11.MEMBER-REF: ->{f} is touched by {n_fn} functions only (a setter and {dealloc} expected)')


def rule_init_atomic(rep: Report, cu: CUnit) -> None:
    """a refused __init__ of a live object must leave it as it was: the counters that describe the storage are only reset further down, after
    the arguments were accepted - a release that comes before a failing return leaves counts and caches that describe freed storage"""
    rep.rule('C11.INIT-ATOMIC', 'in the tp_init function no path that returns failure (-1) has released storage of the object before it: the '
             'helper that frees the allocations (and every free / Py_CLEAR / Py_DECREF of a member) is reached only after the last refusal of the '
             'arguments - otherwise a refused re-initialisation leaves slot counts, the page cache and the segment count describing freed memory', 1)
    slot_src = ' '.join(cu.src_of(v) for k_, v in cu.vars.items() if 'slots' in k_)
    md = re.search(r'Py_tp_init\s*,\s*(?:\(\s*void\s*\*\s*\)\s*)?(\w+)', slot_src)
    if not md or md.group(1) not in cu.funcs:
        raise AnalysisError('C11.INIT-ATOMIC: the Py_tp_init slot of the type was not found')
    init = md.group(1)
    # unit functions that release storage of the object (directly)
    releasers = {f for f in cu.funcs if f != init and any(c.get('kind') == 'CallExpr' and callee(c) == 'free' for c in walk(cu.body(f)))}
    g = build_c_cfg(cu, init)
    from collections import deque
    IN: Dict[int, Set[bool]] = {g.entry: {False}}
    work = deque([g.entry])
    bad: List[str] = []
    n_fail = 0
    while work:
        nid = work.popleft()
        node = g.nodes[nid]
        for released in list(IN[nid]):
            out = released
            a = node.ast
            if isinstance(a, dict) and node.kind in ('stmt', 'cond', 'return'):
                for c in walk(a):
                    if c.get('kind') == 'CallExpr' and (callee(c) in releasers or callee(c) == 'free' or ('DECREF' in callee(c).upper() and any(
                            m_.get('kind') == 'MemberExpr' for x_ in call_args(c) for m_ in walk(x_)))):
                        out = True
                if cu._raw_src(a).strip() == 'Py_CLEAR':
                    out = True
                if node.kind == 'return' and a.get('inner'):
                    v = int_value(strip(a['inner'][0]))
                    neg = cu.src_of(a['inner'][0]).replace(' ', '') in ('-1', '(-1)') or (v is not None and v < 0)
                    if neg:
                        n_fail += 1
                        if released:
                            bad.append(f'`return -1` at {cu.site(a, init)} is reached after storage of the object was released')
            for m, _l in g.succ[nid]:
                IN.setdefault(m, set())
                if out not in IN[m]:
                    IN[m].add(out)
                    work.append(m)
    if n_fail < 1:
        raise AnalysisError(f'C11.INIT-ATOMIC: {init} has no failing return (the argument refusals were expected)')
    rep.check(not bad, 'C11.INIT-ATOMIC', f'{init}:refusals before releases', bad[0] if bad else f'{n_fail} failing returns, none after a release '
              f'(releasing helpers: {sorted(releasers)})', cu.site(cu.func(init), init), expected='validate the arguments first, release afterwards')


def rule_errors(rep: Report, cu: CUnit) -> None:
    rep.rule('C11.ERRORS', 'every `return NULL` / `return -1` of a function exposed to Python is reached only after a call that '
             'sets the Python error indicator (PyErr_*, a failing CPython API, or a helper that sets it)', 10)
    SETTERS = {'PyErr_SetString', 'PyErr_NoMemory'}
    FAILING_API = {'_PyArg_ParseTuple_SizeT', '_PyArg_ParseTupleAndKeywords_SizeT', 'PySequence_Size', 'PySequence_GetItem',
                   'PyLong_AsUnsignedLongLong', 'PyList_New', 'PyLong_FromUnsignedLongLong', 'PyList_Append',
                   'PyType_FromSpec', 'PyModule_Create2', 'PyModule_AddObject', 'PyErr_Occurred'}
    # helpers that return failure only with the indicator set (computed to a fixpoint)
    exposed = ['Memory_init', 'Memory_add_segment', 'Memory_set_word', 'Memory_get_word', 'Memory_set_words', 'Memory_run',
               'PyInit__fjcore', 'build_run_result', 'mem_get_page', 'mem_grow_slots', 'mem_decide_storage', 'spec_grow']
    error_helpers = {'mem_get_page', 'mem_grow_slots', 'mem_decide_storage', 'spec_grow', 'build_run_result',
                     'run_measured_loop', dispatcher_of(cu, 'run_flat_loop_impl'), dispatcher_of(cu, 'run_paged_loop_impl')}
    # every function that returns a PyObject* follows the CPython convention (NULL <=> error indicator set): judged like the
    # frozen entry points, and - once all its failure returns are discharged - usable as an error-setting helper by its callers
    py_returning = sorted(f for f in cu.funcs if cu.func(f).get('type', {}).get('qualType', '').startswith('PyObject *(')
                          and f not in exposed)
    for f in py_returning:
        g0 = Fn(cu, f).g
        rets = [n for n in g0.nodes if n.kind == 'return' and isinstance(n.ast, dict) and cu.src_of(n.ast) == 'return NULL']
        if rets and all(_error_set_before(cu, g0, n.id, SETTERS, FAILING_API | error_helpers) for n in rets):
            error_helpers.add(f)
    exposed = exposed + [f for f in py_returning if f not in exposed]
    for name in exposed:
        fn = Fn(cu, name)
        g = fn.g
        for node in g.nodes:
            if node.kind != 'return' or not isinstance(node.ast, dict) or not node.ast.get('inner'):
                continue
            txt = cu.src_of(node.ast)
            if txt not in ('return NULL', 'return -1'):
                continue
            # walk back along the (unique-ish) predecessors: some fact or statement on every path mentions a setter/failed API
            ok = _error_set_before(cu, g, node.id, SETTERS, FAILING_API | error_helpers)
            rep.check(ok, 'C11.ERRORS', f'{name}:{txt}@{cu.line_of(node.ast) - cu.line_of(cu.func(name))}',
                      'error indicator set on every path' if ok else 'a path reaches this failure return without setting an error',
                      cu.site(node.ast, name))


def _error_set_before(cu: CUnit, g: Graph, ret: int, setters: Set[str], failing: Set[str]) -> bool:
    """backward search: every path into `ret` passes a setter call, or the T/F edge of a test of a failing API."""
    seen: Set[int] = set()
    stack = [ret]
    while stack:
        n = stack.pop()
        for p, lab in g.pred[n]:
            node = g.nodes[p]
            a = node.ast
            if isinstance(a, dict) and node.kind in ('stmt', 'cond'):
                names = {callee(c) for c in walk(a) if c.get('kind') == 'CallExpr'}
                if names & setters:
                    continue
                if node.kind == 'cond':
                    if names & failing:
                        continue
                    t = cu.src_of(a).replace(' ', '')
                    # tests of a value produced by a failing API:  !x , x<0 , cause==CAUSE_PYTHON_ERROR
                    if t.startswith('!') or t.endswith('<0') or 'CAUSE_PYTHON_ERROR' in t or '==NULL' in t:
                        var = t.lstrip('!').split('<')[0].split('==')[0]
                        if _var_from_failing(cu, g, p, var, failing):
                            continue
            if node.kind == 'entry' or p == g.entry and not g.pred[p]:
                return False
            if p in seen:
                continue
            seen.add(p)
            if not g.pred[p]:
                return False
            stack.append(p)
    return True


def _var_from_failing(cu: CUnit, g: Graph, at: int, var: str, failing: Set[str]) -> bool:
    # any definition of var in the function body that calls a failing API / error helper
    for node in g.nodes:
        a = node.ast
        if not isinstance(a, dict) or node.kind != 'stmt':
            continue
        for n in walk(a):
            tgt, val = None, None
            if is_assign(n):
                tgt, val = cu.src_of(n['inner'][0]), n['inner'][1]
            elif n.get('kind') == 'VarDecl' and n.get('inner'):
                init = [c for c in n['inner'] if isinstance(c, dict) and c.get('kind')]
                if init:
                    tgt, val = n['name'], init[-1]
            if tgt == var and val is not None:
                if {callee(c) for c in walk(val) if c.get('kind') == 'CallExpr'} & failing:
                    return True
    return False


def rule_retcode(rep: Report, cu: CUnit) -> None:
    rep.rule('C11.RETCODE', 'the unit-local helpers that report failure by returning -1 (and success by a non-negative literal) are tested '
             'exactly: wherever a call of one is compared in a condition, the comparison is true for -1 and false for every success value '
             'the helper can return (or the reverse) - `helper(..) <= 0` would take a successful 0 for a failure. Also the CPython '
             'conversion idiom: the result of PyLong_AsUnsignedLongLong / ..AsLongLong / ..AsSsize_t is an error only together with '
             'PyErr_Occurred()', 12)
    # return sets
    rets: Dict[str, Set[int]] = {}
    for name in cu.funcs:
        fn_ = cu.func(name)
        if 'int' not in str(fn_.get('type', {}).get('qualType', '')).split('(')[0]:
            continue
        vals: Set[int] = set()
        ok = True
        for r in walk(cu.body(name)):
            if r.get('kind') == 'ReturnStmt' and r.get('inner'):
                v = strip(r['inner'][0])
                iv = int_value(v)
                if iv is None and v.get('kind') == 'UnaryOperator' and v.get('opcode') == '-' and int_value(strip(v['inner'][0])) is not None:
                    iv = -int_value(strip(v['inner'][0]))
                if iv is None:
                    ok = False
                else:
                    vals.add(iv)
        if ok and -1 in vals and any(x >= 0 for x in vals) and all(x >= -1 for x in vals):
            rets[name] = vals
    n = 0
    for name in cu.funcs:
        for node in walk(cu.body(name)):
            if node.get('kind') != 'BinaryOperator' or node.get('opcode') not in ('<', '<=', '>', '>=', '==', '!='):
                continue
            a, b = strip(node['inner'][0]), strip(node['inner'][1])
            for call, other, side in ((a, b, 0), (b, a, 1)):
                if call.get('kind') == 'CallExpr' and callee(call) in rets:
                    k = int_value(other)
                    if k is None and other.get('kind') == 'UnaryOperator' and other.get('opcode') == '-' and int_value(strip(other['inner'][0])) is not None:
                        k = -int_value(strip(other['inner'][0]))
                    if k is None:
                        continue
                    n += 1
                    op = node['opcode']
                    def holds(r: int) -> bool:
                        x, y = (r, k) if side == 0 else (k, r)
                        return {'<': x < y, '<=': x <= y, '>': x > y, '>=': x >= y, '==': x == y, '!=': x != y}[op]
                    on_fail = holds(-1)
                    succ = {holds(v) for v in rets[callee(call)] if v >= 0}
                    rep.check(succ == {not on_fail}, 'C11.RETCODE', f'{name}:{cu.src_of(node)[:60]}',
                              f'{callee(call)} returns {sorted(rets[callee(call)])}; the test is {on_fail} for -1 and {sorted(succ)} for the success values',
                              cu.site(node, name), expected='-1 on one side of the test, every success value on the other')
    # truthiness tests `if (helper(..))` / `if (!helper(..))` of such a helper mix -1 with the non-zero successes: only sound when 0 is the ONLY success
    for name in cu.funcs:
        for node in walk(cu.body(name)):
            if node.get('kind') == 'IfStmt' and node.get('inner'):
                c = strip(node['inner'][0])
                if c.get('kind') == 'UnaryOperator' and c.get('opcode') == '!':
                    c = strip(c['inner'][0])
                if c.get('kind') == 'CallExpr' and callee(c) in rets:
                    n += 1
                    rep.check({v for v in rets[callee(c)] if v >= 0} == {0}, 'C11.RETCODE', f'{name}:truthiness of {callee(c)}(..)',
                              f'{callee(c)} returns {sorted(rets[callee(c)])}', cu.site(node, name), expected='a truthiness test only when 0 is the one success value')
    # CPython integer conversions
    for name in cu.funcs:
        fn = None
        for c in walk(cu.body(name)):
            if c.get('kind') == 'CallExpr' and callee(c) in ('PyLong_AsUnsignedLongLong', 'PyLong_AsLongLong', 'PyLong_AsSsize_t', 'PyLong_AsUnsignedLongLongMask', 'PyLong_AsLong'):
                par = cu.parent(c)
                while isinstance(par, dict) and par.get('kind') in ('ImplicitCastExpr', 'CStyleCastExpr', 'ParenExpr'):
                    par = cu.parent(par)
                tgt = None
                if isinstance(par, dict) and is_assign(par):
                    tgt = cu.src_of(par['inner'][0])
                elif isinstance(par, dict) and par.get('kind') == 'VarDecl':
                    tgt = par.get('name')
                if tgt is None:
                    continue
                n += 1
                # some condition of the function tests `tgt == -1 && PyErr_Occurred()` (either order, the -1 possibly cast)
                found = False
                for t in walk(cu.body(name)):
                    if t.get('kind') == 'BinaryOperator' and t.get('opcode') == '&&':
                        parts = [cu.src_of(x).replace(' ', '') for x in t['inner']]
                        has_err = any(p_.startswith('PyErr_Occurred(') for p_ in parts)
                        has_cmp = any(re.fullmatch(re.escape(tgt) + r'==(\([\w ]+\))?-1', p_.replace('unsignedlonglong', 'unsigned long long').replace(' ', '')) or
                                      re.fullmatch(r'(\([\w ]+\))?-1==' + re.escape(tgt), p_) for p_ in parts)
                        found = found or (has_err and has_cmp)
                rep.check(found, 'C11.RETCODE', f'{name}:{callee(c)} -> {tgt}', 'error test `== -1 && PyErr_Occurred()`' if found else
                          'the conversion result is not tested as `== -1 && PyErr_Occurred()`: a legitimate all-ones value is taken for an error, or an error for a value',
                          cu.site(c, name))
    rep.units['retcode'] = dict(helpers={k: sorted(v) for k, v in rets.items()}, tests=n)


def check(rep: Report, repo: Optional[Repo] = None) -> None:
    from ..spec.machine import ROLES_C as M_ROLES_C
    repo = repo or Repo()
    cu = CUnit(repo)
    rule_member_refs(rep, cu)          # reads the reference macros as clang expands them: before any local is read through
    rule_init_atomic(rep, cu)
    # outside the run loops (which have their own structural analyses and keyed findings) a local that merely names an expression
    # (`Slot* const slots = self->slots`, `index_mask = count - 1`, `kept = self->list`) reads as that expression
    n_inl = sum(cu.inline_pure_locals(f) for f in cu.funcs if f not in M_ROLES_C and not any(
        c.get('kind') == 'CallExpr' and callee(c) in ('memcpy', 'memset') for c in walk(cu.body(f))))       # the mem* clamp idiom is read by name (lo / hi)
    rep.units = dict(c_functions=len(cu.funcs), functions=sorted(cu.funcs), locals_read_through=n_inl)
    rule_bounds(rep, cu)
    rule_overflow(rep, cu)
    rule_alloc(rep, cu)
    rule_shift(rep, cu)
    rule_ownership(rep, cu)
    rule_errors(rep, cu)
    rule_retcode(rep, cu)
    from .c01 import rule_addr_wrap
    rule_addr_wrap(rep, cu)
    rep.not_decided.append('a proof of memory safety (no sound whole-program C verifier in this sandbox); the audit is '
                           'site-exhaustive but idiom-based')


MANIFEST = dict(
    technique='site-exhaustive guard-dominance audit over the clang AST/CFG; ownership typestate',
    level_text='Static audit: every subscript, dereference, mem* range, allocation, shift and new PyObject reference in '
               '_fjcore.c is enumerated from the type-resolved clang AST and must match an accepted idiom whose guard holds '
               'on every CFG path (must-path-conditions); a new or changed site that matches no idiom is reported. This '
               'is a necessary-condition audit, not a memory-safety proof.',
    level_note='Trusted: clang front end; the idiom table in rules/c11.py; CPython API reference-count conventions (new/borrowed/stolen).',
    design_ref='DESIGN.md section 4 C11',
)
