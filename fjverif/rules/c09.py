"""C09 - library input/print/cast macros (structural necessary conditions only)."""
from __future__ import annotations
from typing import Optional
from ..core import Report
from ..fjfront import Stl
from ..pyfacts import Repo
from ..stlrules import rule_bitorder, rule_closure, rule_extent, rule_alias, rule_scratch, rule_const_fits, rule_carry_top, rule_jumpword_restore, rule_byte_class, rule_input_preserved

FILES = ['flipjump/stl/hex/input.fj', 'flipjump/stl/hex/output.fj', 'flipjump/stl/bit/input.fj', 'flipjump/stl/bit/output.fj',
         'flipjump/stl/bit/casting.fj', 'flipjump/stl/casting.fj', 'flipjump/stl/hex/strings.fj', 'flipjump/stl/runlib.fj']


def check(rep: Report, repo: Optional[Repo] = None) -> None:
    repo = repo or Repo()
    stl = Stl(repo)
    rep.units = dict(stl_files=len(stl.files), macros=len(stl.macros), property_files=FILES)
    rule_closure(rep, stl, 'C09', FILES, 150)
    rule_extent(rep, stl, 'C09', FILES, 35, widths=(64,) if rep.tier == 'quick' else (32, 64))
    rule_bitorder(rep, stl)
    rule_scratch(rep, stl, 'C09', FILES, 80)
    rule_alias(rep, stl, 'C09', FILES, 8)
    rule_const_fits(rep, stl, 'C09', FILES, 13)
    rule_carry_top(rep, stl, 'C09', FILES, 10)
    rule_jumpword_restore(rep, stl, 'C09', FILES, 3)
    rule_byte_class(rep, stl, 'C09', FILES, 8)
    rule_input_preserved(rep, stl, 'C09', FILES, 3)
    rep.assumptions.append('footprints assume generic position: distinct symbolic operands of a compile-time `==` / `!=` aliasing test denote distinct variables')
    rep.not_decided.append('decimal/hex conversion arithmetic for all values (value-level); which bytes a parser accepts / stops at / rejects IS decided (BYTE-CLASS)')


MANIFEST = dict(
    technique='own .fj front end: link closure, extents, index-order of the rep-based IO macros; scratch (path-sensitive) / alias / jump-word typestate / constant-width rules; finite-domain abstract interpretation of the input parsers (byte classes vs the documented character classes); in-place arithmetic reaches the top of the assigned extent (CARRY-TOP)',
    level_text='Also: scratch initialisation, alias hazards, jump-word give-back on every path (typestate over the macro CFG), constant widths. Static, PARTIAL: closure and extents as for C04; the raw IO macros documented lsb-first walk bits/bytes in ascending order '
               '(the order C17 pins for the devices). The input parsers are interpreted abstractly over the 256 byte values: the bytes each one accepts, stops at or rejects are unions of the character classes its doc names. It does NOT decide the numeric conversions themselves. One documentation/behaviour mismatch '
               '(bit.input n) is a recorded finding.',
    level_note='Trusted: fjfront. The value-level body of C09 needs execution and is outside this technique family.',
    design_ref='DESIGN.md section 4 C04/C05/C08/C09',
)
