"""C08 - pointer, stack and call/return macros (structural necessary conditions only)."""
from __future__ import annotations
from typing import Optional
from ..core import Report
from ..fjfront import Stl
from ..pyfacts import Repo
from ..stlrules import rule_closure, rule_extent, rule_alias, rule_cell_width, rule_ptr_stride, rule_scratch, rule_sp, rule_const_fits, rule_carry_top

P = 'flipjump/stl/hex/pointers/'
FILES = ['flipjump/stl/ptrlib.fj', P + 'basic_pointers.fj', P + 'read_pointers.fj', P + 'write_pointers.fj', P + 'xor_to_pointer.fj',
         P + 'xor_from_pointer.fj', P + 'stack.fj', P + 'pointer_arithmetics.fj', 'flipjump/stl/bit/pointers.fj']


def check(rep: Report, repo: Optional[Repo] = None) -> None:
    repo = repo or Repo()
    stl = Stl(repo)
    rep.units = dict(stl_files=len(stl.files), macros=len(stl.macros), property_files=FILES)
    rule_closure(rep, stl, 'C08', FILES, 150)
    rule_extent(rep, stl, 'C08', FILES, 45, widths=(64,) if rep.tier == 'quick' else (32, 64))
    rule_sp(rep, stl)
    rule_ptr_stride(rep, stl)
    rule_cell_width(rep, stl)
    rule_scratch(rep, stl, 'C08', FILES, 20)
    rule_alias(rep, stl, 'C08', FILES, 2)
    rule_const_fits(rep, stl, 'C08', FILES, 6)
    rule_carry_top(rep, stl, 'C08', FILES, 1)
    rep.assumptions.append('footprints assume generic position: distinct symbolic operands of a compile-time `==` / `!=` aliasing test denote distinct variables')
    rep.not_decided.append('that a dereference touches exactly the pointed cell and restores the shared to_flip/to_jump ops (value-level)')


MANIFEST = dict(
    technique='own .fj front end: link closure, extents, symbolic stack-pointer effect summaries, pointer stride arithmetic; constant-width rule; in-place arithmetic reaches the top of the assigned extent (CARRY-TOP)',
    level_text='Also: constants written into fixed-width vectors fit. Static, PARTIAL: closure and extents as for C04; stack-pointer deltas compose additively (push +1 / pop -1, push n and pop n '
               'opposite with reversed cell order, call nets 0), so every balanced sequence restores sp; pointer arithmetic moves by '
               'exactly one cell (dw) and ptr_index scales by 2w. It does NOT decide what a dereference reads or writes.',
    level_note='Trusted: fjfront. The value-level body of C08 needs execution and is outside this technique family.',
    design_ref='DESIGN.md section 4 C04/C05/C08/C09',
)
