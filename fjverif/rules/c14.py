"""C14 - every assembly failure is a specific library diagnostic (exception-escape analysis of assemble())."""
from __future__ import annotations

import ast
import re
from typing import Any, Callable, Dict, List, Optional, Set, Tuple

from ..core import AnalysisError, Report
from ..excflow import (GuardFacts, Site, _const_like, _in_annotation, collect_sites, dominating_guards, handler_converts, lexical_handler,
                       make_hierarchy)
from ..pyfacts import (param_names, Repo, cc, cn, read_through_locals, resolve_names, normalize_counting_whiles, ancestors, calls, dotted, enclosing_handlers, handler_types, norm, parent, raise_guards,
                       raised_class, walk_no_nested)

ASM = 'flipjump/assembler/assembler.py'
PRE = 'flipjump/assembler/preprocessor.py'
OPS = 'flipjump/assembler/inner_classes/ops.py'
EXPR = 'flipjump/assembler/inner_classes/expr.py'
PARSER = 'flipjump/assembler/fj_parser.py'
WRITER = 'flipjump/fjm/fjm_writer.py'
FUNCS = 'flipjump/utils/functions.py'
CLASSES = 'flipjump/utils/classes.py'
STATS = 'flipjump/interpreter/debugging/macro_usage_graph.py'          # the preprocessor calls it when show_statistics is on
MODULES = [ASM, PRE, OPS, EXPR, PARSER, WRITER, FUNCS, CLASSES, STATS]


def all_functions(repo: Repo, rel: str) -> List[Tuple[str, ast.FunctionDef]]:
    out: List[Tuple[str, ast.FunctionDef]] = []

    def rec(node: ast.AST, prefix: str) -> None:
        for ch in getattr(node, 'body', []):
            if isinstance(ch, (ast.FunctionDef, ast.AsyncFunctionDef)):
                out.append((prefix + ch.name, ch))
                rec(ch, prefix + ch.name + '.')
            elif isinstance(ch, ast.ClassDef):
                rec(ch, prefix + ch.name + '.')
    rec(repo.mod(rel), '')
    return out


def closure(repo: Repo) -> List[Tuple[str, str, ast.FunctionDef]]:
    """functions reachable from assembler.assemble by (over-approximating) name-based call resolution;
    sly grammar/lexer methods are reachable through parser.parse / lexer.tokenize."""
    table: Dict[str, List[Tuple[str, str, ast.FunctionDef]]] = {}
    every: List[Tuple[str, str, ast.FunctionDef]] = []
    for rel in MODULES:
        for q, fn in all_functions(repo, rel):
            table.setdefault(q.split('.')[-1], []).append((rel, q, fn))
            every.append((rel, q, fn))
    seen: Dict[int, Tuple[str, str, ast.FunctionDef]] = {}
    work = [x for x in every if x[0] == ASM and x[1] == 'assemble']
    if not work:
        raise AnalysisError('assembler.assemble not found')
    class_inits = {q.split('.')[-2]: (rel, q, fn) for rel, q, fn in every if q.endswith('.__init__')}
    while work:
        rel, q, fn = work.pop()
        if id(fn) in seen:
            continue
        seen[id(fn)] = (rel, q, fn)
        names: Set[str] = set()
        for n in walk_no_nested(fn):
            if isinstance(n, ast.Call):
                d = dotted(n.func)
                last = d.split('.')[-1] if d else ''
                if last:
                    names.add(last)
                if last in ('parse', 'tokenize'):
                    for r2, q2, f2 in every:
                        if q2.startswith(('FJParser.', 'FJLexer.')):
                            work.append((r2, q2, f2))
                if last in class_inits:
                    work.append(class_inits[last])
                    # context managers / dunder protocol
                    for r2, q2, f2 in every:
                        if q2.startswith(last + '.') and q2.split('.')[-1] in ('__enter__', '__exit__', '__str__', '__int__', '__repr__',
                                                                               '__hash__', '__eq__'):
                            work.append((r2, q2, f2))
            elif isinstance(n, ast.With):
                for it in n.items:
                    for c in ast.walk(it.context_expr):
                        if isinstance(c, ast.Call):
                            names.add(dotted(c.func).split('.')[-1])
        # nested class used as a context manager (prepare_macro_call returns _PrepareMacroCall)
        for nm in names:
            for cand in table.get(nm, []):
                work.append(cand)
        if q.endswith('prepare_macro_call'):
            scope = _macro_call_scope(repo)
            for r2, q2, f2 in every:
                if q2.startswith(scope + '.'):
                    work.append((r2, q2, f2))
        # str()/int()/f-string conversions call the dunders of repo classes
        if any(isinstance(n, (ast.JoinedStr,)) or (isinstance(n, ast.Call) and dotted(n.func) in ('str', 'int', 'repr')) for n in walk_no_nested(fn)):
            for r2, q2, f2 in every:
                if q2.split('.')[-1] in ('__str__', '__int__', '__repr__', 'short_str', 'trace_str'):
                    work.append((r2, q2, f2))
    # nested functions of reachable functions
    for rel, q, fn in list(seen.values()):
        for r2, q2, f2 in every:
            if r2 == rel and q2.startswith(q + '.') and id(f2) not in seen:
                seen[id(f2)] = (r2, q2, f2)
    out = sorted(seen.values(), key=lambda t: (t[0], t[2].lineno))
    return out


# ---------------------------------------------------------------- discharge

ALLOW: Dict[str, str] = {
    # key: 'function:what'   (one symbol each, one line of reason)
    'PreprocessorData.<MacroCallScope>.__exit__:self.curr_tree.pop()':
        '__exit__ runs only after __enter__ returned, i.e. after its append',
    'FJParser.definable_line_statement:curr_namespace.pop()':
        'the grammar pairs this rule with the `namespace` rule, whose action appended the name',
    'Expr.all_unknown_labels:self.value[1]': 'Expr payload shape (op, args) is fixed by the constructors',
    'Expr.__str__:expressions[0]': 'guarded by len(expressions) == 1',
    'FJLexer.error:t.value[0]': 'sly passes the non-empty remainder of the text',
    'FJParser.to_base_name:name.split(\'.\')[-1]': 'str.split always returns at least one element',
    'get_char_value_and_length:s[0]': 'the token regex admits only non-empty character bodies (C12.LITERALS)',
    'get_char_value_and_length:s[1]': 'a backslash is always followed by an escape character in the token regex (C12.LITERALS)',
    'get_char_value_and_length:int(s[2:4], 16)': 'the token regex admits exactly two hex digits after \\x (C12.LITERALS)',
    'FJLexer.NUMBER:get_char_value_and_length(n[1:-1])[0]': 'the helper returns a 2-tuple',
    'FJLexer.NUMBER:int(n, 16)': 'token text matched hex_num',
    'FJLexer.NUMBER:int(n, 2)': 'token text matched bin_num',
    # (int(<decimal text>) is NOT excused by the token regex alone: python refuses more than 4300 digits - finding F16)
    'FJLexer.NUMBER:int(t.value)': 'a one-character NUMBER token is a decimal digit',
    'save_debugging_labels:lzma.compress(...)': 'compression of in-memory bytes with the fixed, valid filter chain',
    '_pow:int(base ** exp)': 'int() of an int',
    # the optional macro-usage statistics (show_statistics): keys are the label prefixes the preprocessor itself registered
    '_prepare_first_and_second_level_significant_macros:macro_code_size[parent]':
        'a two-part key is registered by an expansion at depth 2, whose parent expansion (depth 1) registers its own prefix when it ends - '
        'before finish() can run; a failed expansion raises and never reaches the statistics',
    '_choose_most_significant_macros:second_level[k]':
        'second_level is the defaultdict built by _prepare_first_and_second_level_significant_macros (its only caller passes that object): a '
        'missing key reads as the empty dict',
}


# side conditions of ALLOW entries: (condition text, polarity) - one of them must be known at the site
ALLOW_IF: Dict[str, List[Tuple[str, bool]]] = {
    'FJLexer.NUMBER:int(t.value)': [('len(n) >= 2', False), ('len(t.value) >= 2', False)],
}


def discharge(repo: Repo, rel: str, q: str, fn: ast.FunctionDef, s: Site, sub: Callable[[str, str], bool],
              ctx: Dict[str, Any]) -> Optional[str]:
    node = s.node
    if s.need_all:
        hs = [lexical_handler(node, [c], sub) for c in s.classes]
        if all(h is not None and handler_converts(h, sub) in ('library', 'handled') for h in hs):
            return f'HANDLER: every one of {"/".join(s.classes)} is caught (except {sorted({norm(h.type) if h.type else "*" for h in hs if h})}) and converted'
        missing = [c for c, h in zip(s.classes, hs) if h is None or handler_converts(h, sub) not in ('library', 'handled')]
        s.what = f'{s.what} (not converted: {"/".join(missing)})'
        return None
    h = lexical_handler(node, s.classes, sub)
    if h is not None:
        conv = handler_converts(h, sub)
        if conv in ('library', 'handled'):
            return f'HANDLER: except {norm(h.type) if h.type else "*"} -> {conv}'
    akey = s.key.replace(ctx.get('macro_call_scope', '\0'), 'PreprocessorData.<MacroCallScope>')     # the private class may be renamed
    def allowed(key: str) -> bool:
        # an entry may carry a side condition: one of the listed facts has to dominate the site
        need = ALLOW_IF.get(key)
        if need is None:
            return key in ALLOW
        facts = GuardFacts(dominating_guards(node))
        return key in ALLOW and any(facts.get(t) is pol for t, pol in need)
    if allowed(akey):
        return f'ALLOW: {ALLOW[akey]}'
    # the same construct spelled through single-definition locals (`hex_digits = s[2:4]` ... `int(hex_digits, 16)`; `value = self.value`)
    if ':' in akey and isinstance(node, ast.expr):
        try:
            rkey = akey.split(':', 1)[0] + ':' + norm(resolve_names(fn, node))
        except (AnalysisError, RecursionError):
            rkey = akey
        if allowed(rkey):
            return f'ALLOW: {ALLOW[rkey]} (read through locals)'
    guards = dominating_guards(node)
    # loop conditions dominate their bodies
    child: ast.AST = node
    for a in ancestors(node):
        if isinstance(a, ast.While) and any(child is b for b in a.body):
            guards.append((norm(a.test), True))
        if isinstance(a, (ast.FunctionDef, ast.AsyncFunctionDef)):
            break
        child = a
    gd = GuardFacts(guards)          # canonical facts: spelling / nesting / negation of the guards does not matter
    if s.kind == 'subscript':
        base, key = norm(node.value), norm(node.slice)          # type: ignore[attr-defined]
        # xs[i] where i is the variable of a loop / comprehension over range(len(xs))
        for a in ancestors(node):
            gens = a.generators if isinstance(a, (ast.ListComp, ast.SetComp, ast.GeneratorExp, ast.DictComp)) else \
                [a] if isinstance(a, ast.For) else []
            for g in gens:
                if norm(g.target) == key and norm(g.iter) in (f'range(len({base}))', f'range(0, len({base}))'):
                    return f'BOUNDED: {key} ranges over range(len({base}))'
            if isinstance(a, (ast.FunctionDef, ast.AsyncFunctionDef)):
                break
        if gd.get(f'{key} in {base}') is True or gd.get(f'{key} not in {base}') is False:
            return f'MEMBER: `{key} in {base}` guards the lookup'
        if isinstance(node.value, ast.Name):          # type: ignore[attr-defined]
            defs_ = [d_.value for d_ in walk_no_nested(fn) if isinstance(d_, (ast.Assign, ast.AnnAssign)) and d_.value is not None and any(
                isinstance(t_, ast.Name) and t_.id == base for t_ in (d_.targets if isinstance(d_, ast.Assign) else [d_.target]))]
            if defs_ and all(isinstance(v_, ast.Call) and dotted(v_.func).split('.')[-1] == 'defaultdict' and v_.args for v_ in defs_) \
                    and base not in param_names(fn):
                return f'DEFAULTDICT: the local {base} is a collections.defaultdict'
        if base.startswith('p.') and isinstance(node.slice, ast.Constant):      # type: ignore[attr-defined]
            return 'ALLOW: sly production values are the tuples built by the grammar actions'
        if base == 'op_string_to_function':
            return 'TABLE: the operator strings passed by the grammar are exactly the table keys (C12.TABLE)'
        if base in ctx['defaultdicts']:
            return 'DEFAULTDICT: the attribute is a collections.defaultdict'
        if key == 'INITIAL_MACRO_NAME' and ctx['main_macro_inserted']:
            return 'CTOR: FJParser.__init__ inserts the main macro'
        if isinstance(node.value, ast.Dict) and base.startswith('{8:'):          # type: ignore[attr-defined]
            if ctx['writer_width_validated']:
                return 'GUARD: Writer.__init__ validates the width against SUPPORTED_MEMORY_WIDTHS'
        if q == 'FJLexer.NUMBER' and base == 'n' and gd.get('len(n) >= 2') is True:
            return 'GUARD: len(n) >= 2'
        if q == 'resolve_macro_aux' and base == 'preprocessor_data.macros' and ctx['macro_lookup_guarded']:
            return 'GUARD: every call passes a name checked by _PrepareMacroCall.__enter__ or the always-present main macro'
        if q == 'PreprocessorData.insert_label' and base == 'self.labels_code_positions' and gd.get('label in self.labels') is True \
                and ctx['raw_label_writers_fresh']:
            return ('GUARD: label is in the label table, and every writer of that table other than insert_label (which records the '
                    'position) uses a name no identifier can spell (C03.FRESH-NAMES / C16.WRITERS)')
        if q == 'parse_macro_tree' and base == 'input_files' and gd.get('not input_files') is False:
            return 'GUARD: empty file list rejected above'
        if q == ctx['reljump_writer'] and base == 'self.data' and 'V6' in ctx['writer_validated']:
            return 'GUARD: add_segment validates the data range against the pool before the rewrite (C06 V6)'
        return None
    if s.kind == 'binop':
        op = node.op                     # type: ignore[attr-defined]
        right = node.right               # type: ignore[attr-defined]
        consts = ctx['const_names'] | {'memory_width', 'op_size', 'self.memory_width', 'preprocessor_data.memory_width', 'self.word_size'}
        if isinstance(op, (ast.Div, ast.FloorDiv, ast.Mod)):
            if isinstance(node.left, ast.Name) and node.left.id in ('STL_PATH',):       # type: ignore[attr-defined]
                return 'CONST: pathlib division'
            rt_ = norm(right)
            if gd.get(f'{rt_} > 0') is True or gd.get(f'{rt_} != 0') is True or gd.get(f'{rt_} == 0') is False:
                return f'GUARD: `{rt_}` is known non-zero here'
            # `d == 0 or .. x / d ..`: the later operand of an `or` is evaluated only when the earlier one is false
            child_: ast.AST = node
            for a_ in ancestors(node):
                if isinstance(a_, ast.BoolOp) and isinstance(a_.op, ast.Or):
                    k_ = next((i_ for i_, v_ in enumerate(a_.values) if v_ is child_), None)
                    if k_ is not None and any(cn(v_) == cn(ast.parse(f'{rt_} == 0', mode='eval').body) for v_ in a_.values[:k_]):
                        return f'GUARD: the division is the later operand of `{rt_} == 0 or ..`'
                if isinstance(a_, (ast.stmt,)):
                    break
                child_ = a_
            if _const_like(right, consts) and not (isinstance(right, ast.Constant) and right.value == 0):
                return f'CONST: divisor {norm(right)} is a validated width / literal'
            if q == 'PreprocessorData.align_current_address' and norm(right) == 'ops_alignment' and ctx['pad_alignment_guarded']:
                return 'GUARD: get_pad_ops_alignment rejects ops_alignment <= 0 before every call'
            return None
        if isinstance(op, (ast.LShift, ast.RShift)):
            if _const_like(right, consts):
                return f'CONST: shift amount {norm(right)}'
            if isinstance(right, ast.Name) and _is_range_index(node, right.id):
                return 'CONST: shift by a range() index'
            if isinstance(right, ast.BinOp) and isinstance(right.op, ast.Mult):
                for idx_, k_ in ((right.left, right.right), (right.right, right.left)):
                    if isinstance(idx_, ast.Name) and _is_range_index(node, idx_.id) and isinstance(k_, ast.Constant) \
                            and isinstance(k_.value, int) and k_.value >= 0:
                        return 'CONST: shift by a scaled loop index (non-negative, bounded by the length of the sequence)'
            return None
        if isinstance(op, ast.Pow):
            if isinstance(node.left, ast.Constant) and isinstance(right, ast.Call) and dotted(right.func) == 'len':      # type: ignore[attr-defined]
                return 'CONST: a literal base to the power of a length (non-negative, no larger than an object already in memory)'
            if q == '_pow' and gd.get('exp < 0') is False:
                return 'GUARD: negative exponents rejected above (huge exponents: running time not decided)'
            return None
    if s.kind == 'call':
        d = dotted(node.func)            # type: ignore[attr-defined]
        if s.classes == ('OSError',):
            return 'ASSUMPTION: OSError (unwritable/unreadable path) is environmental, outside "for every source text"'
        if d == 'int' and len(node.args) == 1 and q == 'decimal_to_int':      # type: ignore[attr-defined]
            # a chunk of the decimal token: `S[a : a + K]` with a literal K no larger than 640 (the smallest conversion limit python
            # can be configured with); the text is the dec_num token (only digits) - C12.LITERALS validates this decoder
            from ..pyfacts import inline_module_constants as _imc
            a0 = _imc(repo, rel, resolve_names(fn, node.args[0]))          # type: ignore[attr-defined]   # a module-level chunk width reads as its literal
            if isinstance(a0, ast.Subscript) and isinstance(a0.slice, ast.Slice) and a0.slice.lower is not None and a0.slice.upper is not None \
                    and a0.slice.step is None and isinstance(a0.value, ast.Name) and a0.value.id in param_names(fn):
                from ..linexpr import Env as _Env, py_ir as _py_ir, to_lin as _to_lin
                try:
                    dlt = {k_: v_ for k_, v_ in __import__('fjverif.linexpr', fromlist=['lin_add']).lin_add(
                        _to_lin(_py_ir(a0.slice.upper), _Env({})), _to_lin(_py_ir(a0.slice.lower), _Env({})), -1).items() if v_ != 0}
                except Exception:      # noqa: BLE001
                    dlt = {'?': 1}
                if set(dlt) <= {''} and 0 < dlt.get('', 0) <= 640:
                    return f'BOUNDED: a chunk of at most {dlt.get("", 0)} digits of the decimal token (below the smallest conversion limit, 640)'
        if d == 'int' and node.args and (norm(node.args[0]).startswith('self.') or isinstance(node.args[0], ast.Name)):      # type: ignore[attr-defined]
            a0 = node.args[0]            # type: ignore[attr-defined]
            if norm(a0) in ('self.repeat_times', 'evaluated'):
                return 'LIBRARY: Expr.__int__ raises FlipJumpExprException'
        if d.split('.')[-1] in ('pop', 'popleft'):
            recv = norm(node.func.value)   # type: ignore[attr-defined]
            if gd.get(recv) is True:
                return f'GUARD: `{recv}` is non-empty here'
            if q == 'labels_resolve' and recv == 'ops' and ctx['first_segment_enqueued']:
                return 'CTOR: PreprocessorData.__init__ always enqueues the first segment'
            if q == 'BinaryData.insert_wflip_ops' and recv == 'flip_addresses' and gd.get('0 == flip_value') is False \
                    and ctx['flip_value_range_checked']:
                return 'GUARD: flip_value != 0 and 0 <= flip_value < 2^w, so at least one bit below w is set'
        if d.split('.')[-1] == 'pack' and q.startswith('Writer.'):           # write_to_file or a packing helper of the Writer
            if {'V9', 'V10'} <= ctx['writer_validated'] and ctx['writer_flags_validated']:
                return 'GUARD: words, segment fields and flags are range-validated by add_data/add_segment/__init__'
        return None
    return None


def _is_range_index(node: ast.AST, name: str) -> bool:
    """name is the counter of an enclosing loop / comprehension: the target of `range(..)`, or the FIRST target of `enumerate(..)`"""
    def counts(target: ast.AST, it: ast.AST) -> bool:
        if not isinstance(it, ast.Call):
            return False
        d = dotted(it.func)
        if d == 'range':
            return isinstance(target, ast.Name) and target.id == name
        if d == 'enumerate':
            return isinstance(target, ast.Tuple) and bool(target.elts) and isinstance(target.elts[0], ast.Name) and target.elts[0].id == name
        return False
    for a in ancestors(node):
        if isinstance(a, (ast.ListComp, ast.GeneratorExp, ast.SetComp)) and any(counts(g.target, g.iter) for g in a.generators):
            return True
        if isinstance(a, ast.For) and counts(a.target, a.iter):
            return True
    # a counting local kept by hand: bound once to a literal >= 0 and otherwise only advanced by positive literals (`k += 1`) - it
    # counts iterations like an enumerate() index does
    fn = next((a for a in ancestors(node) if isinstance(a, (ast.FunctionDef, ast.AsyncFunctionDef))), None)
    if fn is not None:
        stores = [x for x in walk_no_nested(fn) if isinstance(x, ast.Name) and x.id == name and isinstance(x.ctx, ast.Store)]
        inits = [x for x in walk_no_nested(fn) if isinstance(x, ast.Assign) and len(x.targets) == 1 and isinstance(x.targets[0], ast.Name)
                 and x.targets[0].id == name and isinstance(x.value, ast.Constant) and type(x.value.value) is int and x.value.value >= 0]
        steps = [x for x in walk_no_nested(fn) if isinstance(x, ast.AugAssign) and isinstance(x.target, ast.Name) and x.target.id == name
                 and isinstance(x.op, ast.Add) and isinstance(x.value, ast.Constant) and type(x.value.value) is int and x.value.value > 0]
        if len(inits) == 1 and steps and len(stores) == len(inits) + len(steps) and name not in {a_.arg for a_ in fn.args.args + fn.args.kwonlyargs}:
            return True
    return False


def context(repo: Repo) -> Dict[str, Any]:
    from .c06 import writer_validated
    ctx: Dict[str, Any] = {}
    ctx['macro_call_scope'] = _macro_call_scope(repo)
    from .c06 import reljump_writer
    ctx['reljump_writer'] = reljump_writer(repo)
    ctx['const_names'] = {'w'}
    # defaultdict attributes
    dd = set()
    for rel in (ASM, PRE):
        for q, fn in all_functions(repo, rel):
            if q.endswith('__init__'):
                for st in ast.walk(fn):
                    tgt, val = None, None
                    if isinstance(st, ast.AnnAssign) and st.value is not None:
                        tgt, val = st.target, st.value
                    elif isinstance(st, ast.Assign):
                        tgt, val = st.targets[0], st.value
                    if tgt is not None and isinstance(val, ast.Call) and dotted(val.func).split('.')[-1] == 'defaultdict':
                        dd.add(norm(tgt))
    ctx['defaultdicts'] = dd
    init = repo.func(PARSER, 'FJParser.__init__')
    ctx['main_macro_inserted'] = any(isinstance(d, ast.Dict) and any(norm(k) == 'INITIAL_MACRO_NAME' for k in d.keys if k is not None)
                                     for d in ast.walk(init))
    winit = repo.func(WRITER, 'Writer.__init__')
    wg = [norm(t) for t, r, _ in raise_guards(winit) if raised_class(r) == 'FlipJumpWriteFjmException']
    ctx['writer_width_validated'] = 'memory_width not in SUPPORTED_MEMORY_WIDTHS' in wg
    ctx['writer_flags_validated'] = any('flags < 0' in g and '1 << 64' in g for g in wg) and 'version not in SUPPORTED_VERSIONS_NAMES' in wg
    ctx['writer_validated'] = writer_validated(repo)[0]
    # macro lookup guard
    ent = read_through_locals(repo.func(PRE, _macro_call_scope(repo) + '.__enter__'))
    guarded = any(isinstance(n, ast.If) and cn(n.test) == cc('self.calling_op.macro_name not in self.macros') and
                  any(isinstance(c, ast.Call) and dotted(c.func) == 'macro_resolve_error' for c in ast.walk(n)) for n in ast.walk(ent))
    mre = repo.func(PRE, 'macro_resolve_error')
    noreturn = norm(mre.returns) == 'NoReturn' and isinstance(mre.body[-1], ast.Raise)
    calls_ok = True
    for rel in (PRE,):
        for q, fn in all_functions(repo, rel):
            for c in calls(fn):
                if dotted(c.func) == 'resolve_macro_aux':
                    inside_with = any(isinstance(a, ast.With) and any('prepare_macro_call' in norm(i.context_expr) for i in a.items)
                                      for a in ancestors(c))
                    if not inside_with and norm(c.args[1]) != 'INITIAL_MACRO_NAME':
                        calls_ok = False
    ctx['macro_lookup_guarded'] = guarded and noreturn and calls_ok
    gp = repo.func(PRE, 'get_pad_ops_alignment')
    # every value the helper returns is known positive at its return (enclosing / preceding tests, tests ending in the NoReturn helper)
    gp_rets = [r for r in walk_no_nested(gp) if isinstance(r, ast.Return) and r.value is not None]
    gp_known = bool(gp_rets) and all(GuardFacts(dominating_guards(r)).get(f'{norm(r.value)} > 0') is True or
                                     GuardFacts(dominating_guards(r)).get(f'{norm(r.value)} >= 1') is True for r in gp_rets)
    ctx['pad_alignment_guarded'] = gp_known and noreturn and all(
        norm(c.args[0]) == 'ops_alignment' for q, fn in all_functions(repo, PRE) for c in calls(fn)
        if dotted(c.func).endswith('align_current_address'))
    pinit = repo.func(PRE, 'PreprocessorData.__init__')
    # the result queue is non-empty after construction: an unconditional append, or created from a non-empty literal
    enq = any(isinstance(st, ast.Expr) and isinstance(st.value, ast.Call) and norm(st.value.func) == 'self.result_ops.append' and st.value.args
              for st in pinit.body)
    for st in pinit.body:
        if isinstance(st, (ast.Assign, ast.AnnAssign)) and st.value is not None and \
                norm(st.targets[0] if isinstance(st, ast.Assign) else st.target) == 'self.result_ops':
            v = st.value
            if isinstance(v, ast.Call) and dotted(v.func).split('.')[-1] in ('deque', 'list') and v.args and \
                    isinstance(v.args[0], (ast.List, ast.Tuple)) and v.args[0].elts:
                enq = True
            elif isinstance(v, (ast.List,)) and v.elts:
                enq = True
    ctx['first_segment_enqueued'] = enq
    from ..names import fixed_text_of_fstring, identifier_alphabet, label_table_writers
    alpha = identifier_alphabet(repo)
    fresh = True
    for wrel, wfn, key, _ in label_table_writers(repo):
        if wfn == 'insert_label':
            continue
        txt = fixed_text_of_fstring(key, repo, wrel)
        if not any(ch not in alpha for ch in txt):
            fresh = False
    ctx['raw_label_writers_fresh'] = fresh
    iw = repo.func(ASM, 'BinaryData.insert_wflip_ops')
    ctx['flip_value_range_checked'] = any(isinstance(c, ast.Call) and norm(c) == 'assert_address_in_memory(self.memory_width, flip_value)'
                                          for c in ast.walk(iw))
    return ctx


def rule_escape(rep: Report, repo: Repo, clo: List[Tuple[str, str, ast.FunctionDef]]) -> None:
    rep.rule('C14.ESCAPE', 'exception-escape analysis of assembler.assemble(): every implicitly raising construct in its call '
             'closure (subscripts, divisions, shifts, powers, int(), pack, pop, text decoding, calls through the operator table) '
             'is converted to a library exception before the generic funnel, or excluded by a recognised guard / reasoned '
             'allow-list entry', 70)
    sub = make_hierarchy(repo)
    ctx = context(repo)
    for rel, q, fn in clo:
        if q.startswith('TerminationCause.') or q.startswith('RunStatistics.'):
            continue          # run-time helper classes; reached only through the over-approximated dunder expansion
        sites = _sites_of(repo, rel, q, fn)
        for s in sites:
            proof = discharge(repo, rel, q, fn, s, sub, ctx)
            site = f'{rel}:{s.line()} {q}'
            if proof:
                rep.ok('C14.ESCAPE', s.key, proof, site)
            else:
                rep.fail('C14.ESCAPE', s.key, f'{s.what} can raise {"/".join(s.classes)} on user-influenced data and reaches the '
                         f'generic "unknown exception" funnel of assemble()', site,
                         expected='a handler converting it to a specific FlipJumpException, or a dominating guard')


def rule_list_stores(rep: Report, repo: Repo) -> None:
    """word-list stores of the wflip chain builder: IndexError unless the spot bookkeeping invariants hold."""
    from . import c02
    scratch = Report('C02', 'quick')
    c02.rule_pad_state(scratch, repo)
    c02.rule_paired(scratch, repo)
    broken = [i for i in scratch.instances if not i.ok]
    fn = repo.func(ASM, 'BinaryData.insert_wflip_ops')
    n = 0
    for st in walk_no_nested(fn):
        if isinstance(st, ast.Subscript) and isinstance(st.ctx, ast.Store) and norm(st.value) in ('ops_list', 'wflip_spot.list'):
            n += 1
            key = f'BinaryData.insert_wflip_ops:{norm(st)} = ...'
            if not broken:
                rep.ok('C14.ESCAPE', key, 'INVARIANT: hole indices are valid indices of fj_words (C02.PAD-STATE) and a new spot is '
                       '(list, len(list)) taken before the list grows by two (C02.PAIRED-UPDATE)', f'{ASM}:{st.lineno} BinaryData.insert_wflip_ops')
            else:
                rep.fail('C14.ESCAPE', key, f'list store through a chain spot can raise IndexError (-> generic failure) because '
                         f'{broken[0].rule} @ {broken[0].construct} does not hold: {broken[0].fact[:160]}',
                         f'{ASM}:{st.lineno} BinaryData.insert_wflip_ops', expected='spot indices always valid for their list')
    if n < 3:
        raise AnalysisError('insert_wflip_ops: list stores not found')


def _sites_of(repo: Repo, rel: str, q: str, fn: ast.FunctionDef) -> List[Site]:
    class _R:
        def func(self, _rel: str, _q: str) -> ast.FunctionDef:
            return fn
    return collect_sites(_R(), rel, q)       # type: ignore[arg-type]


def _macro_call_scope(repo: Repo) -> str:
    """qualified name of the context-manager class nested in PreprocessorData whose __enter__ pushes the call on curr_tree (the
    macro-call scope) - found by what it does, so renaming the private class changes nothing."""
    cls = repo.cls(PRE, 'PreprocessorData')
    for st in cls.body:
        if isinstance(st, ast.ClassDef):
            ent = [read_through_locals(m) for m in st.body if isinstance(m, ast.FunctionDef) and m.name == '__enter__']
            if ent and any(isinstance(c, ast.Call) and dotted(c.func).endswith('curr_tree.append') for c in ast.walk(ent[0])):
                return f'PreprocessorData.{st.name}'
    raise AnalysisError('PreprocessorData: the macro-call scope class (an __enter__ that appends to curr_tree) was not found')


def rule_recursion(rep: Report, repo: Repo, clo: List[Tuple[str, str, ast.FunctionDef]]) -> None:
    rep.rule('C14.RECURSION', 'directly recursive functions over input-sized structures have a depth guard or a converting '
             'handler (else a deep input becomes RecursionError -> generic failure)', 4)
    for rel, q, fn in clo:
        short = q.split('.')[-1]
        self_calls = [c for c in calls(fn) if dotted(c.func).split('.')[-1] == short and c is not fn]
        # only methods/functions that call themselves (through any receiver) count
        if not self_calls or short in ('__init__',):
            continue
        if not (rel == EXPR and q.startswith('Expr.')) and q != 'resolve_macro_aux':
            continue          # true self-recursion: Expr methods over the expression tree, and the macro expander
        guarded = False
        why = ''
        if q == 'resolve_macro_aux':
            ent = read_through_locals(repo.func(PRE, _macro_call_scope(repo) + '.__enter__'))
            depth = any(isinstance(n, ast.If) and cn(n.test) == cc('len(self.curr_tree) > self.max_recursion_depth') for n in ast.walk(ent))
            pinit = repo.func(PRE, 'PreprocessorData.__init__')
            lim = [norm(c.args[0]) for c in calls(pinit) if dotted(c.func) == 'sys.setrecursionlimit']
            guarded = depth and lim == ['max_recursion_depth + GAP_BETWEEN_PYTHONS_AND_PREPROCESSOR_MACRO_RECURSION_DEPTH']
            why = 'macro depth guard + python limit set above it'
        else:
            for t, h in [(t, h) for c in self_calls for t, h in enclosing_handlers(c)]:
                if any(x in ('RecursionError', 'RuntimeError', 'Exception', 'BaseException') for x in handler_types(h)):
                    guarded = True
                    why = 'RecursionError is caught and converted'
            # or the funnel itself converts RecursionError specifically
            asm = repo.func(ASM, 'assemble')
            for n in ast.walk(asm):
                if isinstance(n, ast.ExceptHandler) and 'RecursionError' in handler_types(n) and handler_converts(n, make_hierarchy(repo)) == 'library':
                    guarded = True
                    why = 'assemble() converts RecursionError to a specific exception'
        if short in ('__str__', '__repr__', 'all_unknown_labels', 'eval_new', 'exact_eval', 'resolve_macro_aux') or self_calls:
            rep.check(guarded, 'C14.RECURSION', q, why if guarded else
                      'recursion over the expression tree has no depth guard: a 3000-term expression raises RecursionError -> generic failure',
                      f'{rel}:{fn.lineno} {q}', expected='depth guard or conversion of RecursionError')


def rule_raises(rep: Report, repo: Repo, clo: List[Tuple[str, str, ast.FunctionDef]]) -> None:
    rep.rule('C14.RAISES', 'every explicit raise reachable from assemble() raises a specific FlipJumpException subclass (never the '
             'base class, never a builtin); only the funnel raises the "unknown exception" text', 35)
    sub = make_hierarchy(repo)
    for rel, q, fn in clo:
        for n in walk_no_nested(fn):
            if not isinstance(n, ast.Raise):
                continue
            site = f'{rel}:{n.lineno} {q}'
            if n.exc is None or (isinstance(n.exc, ast.Name) and any(isinstance(a, ast.ExceptHandler) and a.name == n.exc.id for a in ancestors(n))):
                rep.ok('C14.RAISES', f'{q}:re-raise', 're-raises the caught exception', site)
                continue
            c = raised_class(n)
            # `raise _builder(..)`: a module-level function whose every return constructs one exception class raises that class
            if c and repo.has_func(rel, c):
                rv = [r.value for r in walk_no_nested(repo.func(rel, c)) if isinstance(r, ast.Return) and r.value is not None]
                built = {dotted(v.func).split('.')[-1] for v in rv if isinstance(v, ast.Call)}
                if rv and len(built) == 1 and all(isinstance(v, ast.Call) for v in rv):
                    c = next(iter(built))
            ok = sub(c, 'FlipJumpException') and c != 'FlipJumpException'
            if c in ('KeyboardInterrupt',):
                ok = True
            rep.check(ok, 'C14.RAISES', f'{q}:raise {c}', f'raises {c}', site, expected='a specific FlipJumpException subclass')
    txt = [(rel, q, n.lineno) for rel, q, fn in clo for n in ast.walk(fn) if isinstance(n, ast.Constant) and isinstance(n.value, str)
           and 'please report this bug' in n.value]
    rep.check([(r, q) for r, q, _ in txt] == [(ASM, 'assemble')], 'C14.RAISES', 'unknown-exception-text', str(txt), ASM,
              expected='only the funnel of assemble()')


def rule_write_last(rep: Report, repo: Repo) -> None:
    rep.rule('C14.WRITE-LAST', 'the output file is opened only after every fallible computation on user data (packing, '
             'compression) has finished; writing is the last stage of assemble(); the label file is written after it', 3)
    from ..pyfacts import expand_private_calls
    wf = expand_private_calls(repo, WRITER, repo.func(WRITER, 'Writer.write_to_file'), 'Writer', depth=2, keep=['_compress_data'])
    opens = [n for n in ast.walk(wf) if isinstance(n, ast.With) and any(isinstance(c, ast.Call) and dotted(c.func) == 'open' for i in n.items for c in ast.walk(i.context_expr))]
    if len(opens) != 1:
        raise AnalysisError('Writer.write_to_file: expected exactly one `with open(...)`')
    inside = [dotted(c.func) for st in opens[0].body for c in ast.walk(st) if isinstance(c, ast.Call)]
    fallible_inside = [d for d in inside if d in ('pack', 'struct.pack', 'self._compress_data', 'lzma.compress')]
    after_open = wf.body[wf.body.index(opens[0]) + 1:] if opens[0] in wf.body else []
    later = [dotted(c.func) for st in after_open for c in ast.walk(st) if isinstance(c, ast.Call)]
    rep.check(not fallible_inside and not later, 'C14.WRITE-LAST', 'Writer.write_to_file:open-after-pack',
              f'inside the open block: {sorted(set(inside))}; fallible there: {fallible_inside}', f'{WRITER}:{opens[0].lineno}',
              expected='only f.write(...) of prepared bytes inside the open block')
    asm = repo.func(ASM, 'assemble')
    order = [(c.lineno, dotted(c.func)) for c in ast.walk(asm) if isinstance(c, ast.Call) and dotted(c.func) in
             ('parse_macro_tree', 'resolve_macros', 'labels_resolve', 'assert_first_op_assembled', 'fjm_writer.write_to_file', 'save_debugging_labels')]
    seq = [d for _, d in sorted(order)]
    rep.check(seq == ['parse_macro_tree', 'resolve_macros', 'labels_resolve', 'assert_first_op_assembled', 'fjm_writer.write_to_file', 'save_debugging_labels'],
              'C14.WRITE-LAST', 'assemble:stage-order', str(seq), f'{ASM}:{asm.lineno}')
    sd = repo.func(FUNCS, 'save_debugging_labels')
    # json.dumps of Dict[str,int] cannot fail; it is computed inside the open block today - tolerated (labels file, not the program)
    rep.ok('C14.WRITE-LAST', 'save_debugging_labels', 'label file written after the program file (its payload is a str->int dict)', f'{FUNCS}:{sd.lineno}')


def rule_progress(rep: Report, repo: Repo, clo: List[Tuple[str, str, ast.FunctionDef]]) -> None:
    rep.rule('C14.PROGRESS', 'every while loop in the pipeline strictly progresses on each continuing path', 2)
    for rel, q, fn0 in clo:
        # `i = a; while i < b: ...; i += c` is a for loop over range(a, b, c): bounded, nothing to prove
        fn = normalize_counting_whiles(fn0) if any(isinstance(x, ast.While) for x in ast.walk(fn0)) else fn0
        for n in walk_no_nested(fn):
            if not isinstance(n, ast.While):
                continue
            site = f'{rel}:{n.lineno} {q}'
            test = norm(n.test)
            ok, why = False, 'unrecognised loop'
            if q == 'BinaryData.insert_wflip_ops' and test == 'flip_addresses':
                # every path through the body pops or returns
                ok = _all_paths(n.body, lambda s: isinstance(s, ast.Return) or any(
                    isinstance(c, ast.Call) and norm(c.func) == 'flip_addresses.pop' for c in ast.walk(s)))
                why = 'each iteration pops an element or returns'
            elif q == 'FJLexer.STRING' and isinstance(n.test, ast.Compare) and len(n.test.ops) == 1:
                # `pos < len(s)` (either way round): each iteration adds the length of the character just decoded, and every
                # length the decoder returns is a positive literal
                a_, b_, op_ = n.test.left, n.test.comparators[0], n.test.ops[0]
                if isinstance(op_, ast.Gt):
                    a_, b_ = b_, a_
                cnt_ok = isinstance(op_, (ast.Lt, ast.Gt)) and isinstance(a_, ast.Name) and isinstance(b_, ast.Call) and dotted(b_.func) == 'len'
                steps_ = [s.value for s in n.body if isinstance(s, ast.AugAssign) and isinstance(s.op, ast.Add) and cnt_ok and norm(s.target) == a_.id]   # type: ignore[union-attr]
                from_decoder = False
                if len(steps_) == 1 and isinstance(steps_[0], ast.Name):
                    for s in n.body:
                        if isinstance(s, ast.Assign) and isinstance(s.targets[0], ast.Tuple) and len(s.targets[0].elts) == 2 \
                                and norm(s.targets[0].elts[1]) == steps_[0].id and isinstance(s.value, ast.Call) \
                                and dotted(s.value.func) == 'get_char_value_and_length':
                            from_decoder = True
                g = repo.func(PARSER, 'get_char_value_and_length')
                lens = [r.value.elts[1] for r in ast.walk(g) if isinstance(r, ast.Return) and isinstance(r.value, ast.Tuple) and len(r.value.elts) == 2]
                rets = [r for r in ast.walk(g) if isinstance(r, ast.Return)]
                pos_lens = bool(lens) and len(lens) == len(rets) and all(isinstance(x, ast.Constant) and isinstance(x.value, int) and x.value > 0 for x in lens)
                ok = cnt_ok and from_decoder and pos_lens
                why = f'{norm(a_)} += decoded length; lengths {[norm(x) for x in lens]}'
            rep.check(ok, 'C14.PROGRESS', f'{q}:while {test}', why, site)
    err = repo.func(PARSER, 'FJLexer.error')
    rep.check(any(isinstance(s, ast.AugAssign) and norm(s.target) == 'self.index' and norm(s.value) == '1' for s in err.body), 'C14.PROGRESS',
              'FJLexer.error:index', 'the lexer skips one character per error', f'{PARSER}:{err.lineno}')


def _all_paths(stmts: List[ast.stmt], pred: Callable[[ast.stmt], bool]) -> bool:
    for s in stmts:
        if isinstance(s, ast.If):
            if _all_paths(s.body, pred) and s.orelse and _all_paths(s.orelse, pred):
                return True
            continue
        if pred(s):
            return True
    return False


# producers of integers the user can make arbitrarily large (constant expressions are unbounded python ints)
UNBOUNDED_INT_PRODUCERS = {'exact_eval', 'calculate_ops_alignment', 'calculate_address', 'calculate_reserved_bit_size', 'calculate_times',
                           'get_flip', 'get_jump', 'get_word_address', 'get_flip_value', 'get_return_address'}
SAFE_INT_FORMATTERS = {'hex', 'bin', 'oct', 'int_to_str', 'len', 'type', 'repr_short'}


def rule_int_format(rep: Report, repo: Repo, clo: List[Tuple[str, str, ast.FunctionDef]]) -> None:
    rep.rule('C14.INT-FORMAT', 'CPython refuses to convert an integer above 4300 digits to a decimal string (ValueError), to encode it as json '
             '(same conversion) or to multiply it with a float (OverflowError), and constants are unbounded - so on the assemble() call closure '
             'no value that comes from evaluating a user expression (the result of exact_eval / calculate_* / get_flip.., of a closure function '
             'that returns such a value, an element of the word list handed to the writer, the operands of `**`, an Expr\'s int value, an '
             'attribute such a value was stored in) reaches a decimal formatting (f-string placeholder, str(), repr(), %d), json.dump(s) or '
             'float arithmetic, unless through hex()/bin()/oct() / the length-safe helper, or after a range refusal that bounds it from both '
             'sides; the error path is where such values are printed, so an exception there is the generic failure', 4)
    n_sites = 0
    extra = [(EXPR, '_pow', repo.func(EXPR, '_pow'))] if repo.has_func(EXPR, '_pow') and not any(q == '_pow' for _, q, _ in clo) else []
    funcs = list(clo) + extra                     # _pow is reached through the operator table, not by name
    seeds: Dict[str, Set[str]] = {q: set() for _, q, _ in funcs}
    by_short: Dict[str, List[Tuple[str, ast.FunctionDef]]] = {}
    for _, q, fn in funcs:
        by_short.setdefault(q.split('.')[-1], []).append((q, fn))
    producers: Set[str] = set(UNBOUNDED_INT_PRODUCERS)          # grows: closure functions that return such a value
    fields: Set[str] = set()                                      # attribute names such a value was stored in (field-based, any object)
    expr_fields: Set[str] = set()                                 # attribute names that keep an Expr (`x.f = Expr(..)` / an Expr parameter)
    for _rel, _q, fn0 in funcs:
        expr_params = {a.arg for a in fn0.args.args if a.annotation is not None and norm(a.annotation) == 'Expr'}
        for n0 in walk_no_nested(fn0):
            if isinstance(n0, ast.Assign) and len(n0.targets) == 1 and isinstance(n0.targets[0], ast.Attribute) and (
                    (isinstance(n0.value, ast.Call) and dotted(n0.value.func) == 'Expr') or (isinstance(n0.value, ast.Name) and n0.value.id in expr_params)):
                expr_fields.add(n0.targets[0].attr)
    BIG = 10 ** 5000
    from ..excflow import refusal_tests
    from ..pyfacts import expand_private_calls, eval_int_expr

    def bounded_in(rel_: str, q_: str, fn_: ast.FunctionDef, text: str, after: Optional[ast.AST] = None) -> bool:
        """some refusal of fn_ (private helpers of its class read through) fires for `text` = +10^5000 and one for -10^5000: whatever
        goes on from here is a bounded value. `after`: a store into `text` - only refusals that come AFTER it (in statement order) test the
        stored value; one that stands before it tested the old value"""
        cls_ = q_.split('.')[0] if '.' in q_ else None
        try:
            fx = expand_private_calls(repo, rel_, fn_, cls_)
        except AnalysisError:
            fx = fn_
        order_: Dict[int, int] = {}

        def dfs(n_: ast.AST) -> None:
            order_[id(n_)] = len(order_)
            for ch in ast.iter_child_nodes(n_):
                dfs(ch)
        dfs(fx)
        store_pos = -1
        if after is not None:
            want = norm(after)
            cands = [order_[id(x)] for x in ast.walk(fx) if isinstance(x, (ast.Assign, ast.AugAssign, ast.AnnAssign)) and norm(x) == want]
            store_pos = max(cands) if cands else 10 ** 9          # the store itself was not found in the expanded text: nothing can be claimed
        hit = {1: False, -1: False}
        for _r, t in refusal_tests(fx):
            if order_.get(id(_r), 10 ** 9) < store_pos:
                continue
            names = {norm(x) for x in ast.walk(t) if isinstance(x, (ast.Name, ast.Attribute))}
            if text not in names:
                continue
            for sign in (1, -1):
                env = {nm: (64 if nm.endswith('memory_width') or nm in ('w', 'memory_width') else 128 if nm.endswith('op_size') else 0) for nm in names}
                env[text] = sign * BIG
                try:
                    if bool(eval_int_expr(t, env)):
                        hit[sign] = True
                except (AnalysisError, ArithmeticError, ValueError, MemoryError):
                    pass                         # the test itself cannot be folded with such a value (a shift by it, ..): not a bound
        return hit[1] and hit[-1]

    def hot_(e: ast.AST, t: Set[str]) -> bool:
        # the integer itself flows: names, attributes it was stored in, arithmetic, elements, producer calls - not a string built from it
        if isinstance(e, ast.Name):
            return e.id in t
        if isinstance(e, ast.Attribute):
            return e.attr in fields
        if isinstance(e, ast.Call):
            d = dotted(e.func)
            if d in SAFE_INT_FORMATTERS:
                return False
            if d in ('int', 'abs', 'min', 'max', 'dict', 'list', 'tuple', 'sum', 'next', 'sorted', 'reversed', 'set', 'frozenset', 'iter') and any(hot_(a, t) for a in e.args):
                return True
            if d == 'int' and len(e.args) == 1 and isinstance(e.args[0], ast.Attribute) and e.args[0].attr in expr_fields:
                return True                      # the int value of an Expr the object keeps: whatever the user wrote
            return d.split('.')[-1] in producers
        if isinstance(e, ast.BinOp):
            return hot_(e.left, t) or hot_(e.right, t)
        if isinstance(e, ast.UnaryOp):
            return hot_(e.operand, t)
        if isinstance(e, ast.IfExp):
            return hot_(e.body, t) or hot_(e.orelse, t)
        if isinstance(e, (ast.Subscript, ast.Starred)):
            return hot_(e.value, t)
        if isinstance(e, (ast.Tuple, ast.List)):
            return any(hot_(x, t) for x in e.elts)
        if isinstance(e, (ast.GeneratorExp, ast.ListComp, ast.SetComp)):
            # elements drawn from a container of such values (the loop variable itself or arithmetic on it)
            its = {x.id for g in e.generators if hot_(g.iter, t) and not isinstance(g.iter, ast.Call) for x in ast.walk(g.target) if isinstance(x, ast.Name)}
            return hot_(e.elt, t | its)
        return False

    def local_taint(rel_: str, q: str, fn: ast.FunctionDef) -> Set[str]:
        tainted: Set[str] = set(seeds[q])
        if q == '_pow':
            tainted |= {a.arg for a in fn.args.args}
        if q == 'Writer.add_data':
            tainted |= {'data'}
        changed = True
        while changed:
            changed = False
            for n in walk_no_nested(fn):
                tgts: List[str] = []
                val: Optional[ast.AST] = None
                if isinstance(n, ast.Assign) and len(n.targets) == 1 and isinstance(n.targets[0], ast.Name):
                    tgts, val = [n.targets[0].id], n.value
                elif isinstance(n, ast.Assign) and len(n.targets) == 1 and isinstance(n.targets[0], ast.Tuple) and isinstance(n.value, ast.Call):
                    tgts, val = [x.id for x in n.targets[0].elts if isinstance(x, ast.Name)], n.value      # `a, b = producer()`: either may be it
                elif isinstance(n, ast.AnnAssign) and isinstance(n.target, ast.Name) and n.value is not None:
                    tgts, val = [n.target.id], n.value
                elif isinstance(n, ast.AugAssign) and isinstance(n.target, ast.Name):
                    tgts, val = [n.target.id], n.value
                elif isinstance(n, (ast.For, ast.comprehension)) and isinstance(n.target, ast.Name):
                    tgts, val = [n.target.id], n.iter
                if not tgts or val is None:
                    continue
                if isinstance(n, (ast.For, ast.comprehension)) and isinstance(val, ast.Call):
                    continue                      # range(n) / enumerate(..): the index counts iterations, it is not the value
                if hot_(val, tainted):
                    for tg in tgts:
                        if tg not in tainted and not bounded_in(rel_, q, fn, tg):
                            tainted.add(tg)
                            changed = True
        return tainted
    rel_of = {q: rel for rel, q, _ in funcs}
    for _ in range(8):
        grew = False
        for rel, q, fn in funcs:
            t = local_taint(rel, q, fn)
            # stores into attributes (also `x.f += v`, `x.f[k] = v`): the field holds such a value from now on - unless this function
            # refuses it outside a range right here
            for n in walk_no_nested(fn):
                tg_, val_ = None, None
                if isinstance(n, ast.Assign) and len(n.targets) == 1:
                    tg_, val_ = n.targets[0], n.value
                elif isinstance(n, ast.AugAssign):
                    tg_, val_ = n.target, n.value
                if tg_ is None or val_ is None:
                    continue
                base_ = tg_.value if isinstance(tg_, ast.Subscript) else tg_
                if isinstance(base_, ast.Attribute) and hot_(val_, t) and base_.attr not in fields:
                    if isinstance(tg_, ast.Attribute) and bounded_in(rel, q, fn, norm(tg_), after=n):
                        continue
                    # a private "do the step" helper: the refusal may stand in its callers, right after the call - every caller that
                    # hands it such a value has to bound the attribute itself
                    short_h = q.split('.')[-1]
                    if short_h.startswith('_') and not short_h.startswith('__') and isinstance(tg_, ast.Attribute) and norm(tg_.value) == 'self':
                        sites_ = [(r2, q2, f2, c2) for r2, q2, f2 in funcs for c2 in calls(f2)
                                  if isinstance(c2.func, ast.Attribute) and c2.func.attr == short_h and f2 is not fn]
                        def site_ok(r2: str, q2: str, f2: ast.FunctionDef, c2: ast.Call) -> bool:
                            t2 = local_taint(r2, q2, f2)
                            if not any(hot_(a2, t2) for a2 in c2.args):
                                return True
                            return bounded_in(r2, q2, f2, f'{norm(c2.func.value)}.{tg_.attr}')          # type: ignore[attr-defined]
                        if sites_ and all(site_ok(*x) for x in sites_):
                            continue
                    fields.add(base_.attr)
                    grew = True
            # a function that returns such a value is a producer of it
            short_q = q.split('.')[-1]
            ret_ann = norm(fn.returns) if fn.returns is not None else ''
            if short_q not in producers and short_q not in SAFE_INT_FORMATTERS:
                for r in walk_no_nested(fn):
                    # typed as an int - or handing out, as it is, an attribute such values were stored in / what another producer returned
                    as_is = isinstance(r, ast.Return) and r.value is not None and all(isinstance(x, ast.Attribute) or (isinstance(x, ast.Call) and dotted(x.func).split('.')[-1] in producers)
                                                        for x in (r.value.elts if isinstance(r.value, ast.Tuple) else [r.value]))
                    if isinstance(r, ast.Return) and r.value is not None and (re.search(r'\bint\b', ret_ann) or as_is) and hot_(r.value, t) and not (
                            isinstance(r.value, ast.Name) and bounded_in(rel, q, fn, r.value.id)):
                        producers.add(short_q)
                        grew = True
                        break
            for c in calls(fn):
                short = dotted(c.func).split('.')[-1]
                for q2, fn2 in by_short.get(short, []):
                    params = [a.arg for a in fn2.args.args]
                    if params and params[0] in ('self', 'cls') and '.' in dotted(c.func):
                        params = params[1:]
                    for i_, a in enumerate(c.args):
                        if i_ >= len(params) or isinstance(a, ast.Starred):
                            continue
                        if isinstance(a, ast.Call) and dotted(a.func) in SAFE_INT_FORMATTERS | {'len'}:
                            continue
                        ann_ = next((norm(x.annotation) for x in fn2.args.args if x.arg == params[i_] and x.annotation is not None), 'int')
                        if hot_(a, t) and params[i_] not in seeds[q2] and re.search(r'\bint\b', ann_):
                            seeds[q2].add(params[i_])
                            grew = True
        if not grew:
            break
    for rel, q, fn in funcs:
        if q == 'int_to_str':
            continue                              # the length-safe helper itself (its fallback is checked below)
        tainted = local_taint(rel, q, fn)
        floats = {a.arg for a in fn.args.args + fn.args.kwonlyargs if a.annotation is not None and norm(a.annotation) == 'float'}
        # the value of a sly token is whatever literal the user wrote (the NUMBER / STRING actions store an int of any size in it)
        tokens = {a.arg for a in fn.args.args if a.annotation is not None and norm(a.annotation) == 'Token'} if q.startswith(('FJParser.', 'FJLexer.')) else set()
        sinks: List[Tuple[ast.AST, str]] = []
        for n in walk_no_nested(fn):
            if isinstance(n, ast.FormattedValue):
                spec = ''.join(str(v.value) for v in n.format_spec.values if isinstance(v, ast.Constant)) if isinstance(n.format_spec, ast.JoinedStr) else ''
                if spec[-1:] in ('x', 'X', 'b', 'o'):
                    continue                      # `{v:#x}` is hex() / bin() / oct() formatting: length-safe
                sinks.append((n.value, 'f-string'))
            elif isinstance(n, ast.Call) and dotted(n.func) in ('str', 'repr') and len(n.args) == 1:
                sinks.append((n.args[0], dotted(n.func) + '()'))
            elif isinstance(n, ast.Call) and dotted(n.func) in ('json.dumps', 'json.dump') and n.args:
                sinks.append((n.args[0], dotted(n.func) + '()'))
            elif isinstance(n, ast.Call) and dotted(n.func) == 'float' and len(n.args) == 1:
                sinks.append((n.args[0], 'float arithmetic'))
            elif isinstance(n, ast.BinOp) and isinstance(n.op, ast.Mod) and isinstance(n.left, ast.Constant) and isinstance(n.left.value, str):
                sinks.append((n.right, '%-format'))
            elif isinstance(n, ast.BinOp) and isinstance(n.op, (ast.Mult, ast.Div)):
                def floatish(e: ast.AST) -> bool:
                    return (isinstance(e, ast.Constant) and isinstance(e.value, float)) or (isinstance(e, ast.Name) and e.id in floats)
                if floatish(n.left) and not floatish(n.right):
                    sinks.append((n.right, 'float arithmetic'))
                elif floatish(n.right) and not floatish(n.left):
                    sinks.append((n.left, 'float arithmetic'))
        for expr, how in sinks:
            if isinstance(expr, ast.Call) and dotted(expr.func) in SAFE_INT_FORMATTERS:
                continue
            direct = hot_(expr, tainted) and not isinstance(expr, ast.BinOp)
            if isinstance(expr, ast.Attribute) and expr.attr == 'value' and isinstance(expr.value, ast.Name) and expr.value.id in tokens:
                direct = True
            # Expr.__str__: the int value of the node itself
            self_value = q == 'Expr.__str__' and norm(expr) == 'self.value' and any(
                isinstance(i, ast.If) and 'isinstance(self.value, int)' in norm(i.test) and any(expr is y for b in i.body for y in ast.walk(b))
                for i in ast.walk(fn))
            arith = isinstance(expr, ast.BinOp) and hot_(expr, tainted)
            if isinstance(expr, ast.Attribute) and bounded_in(rel, q, fn, norm(expr)):
                direct = False
            if direct or self_value or arith:
                n_sites += 1
                exc_ = 'OverflowError' if how == 'float arithmetic' else 'ValueError above 4300 digits'
                rep.fail('C14.INT-FORMAT', f'{q}:{how} {norm(expr)[:40]}', f'{norm(expr)[:60]} is an unbounded user integer that reaches {how} '
                         f'({exc_} -> generic failure)', f'{rel}:{getattr(expr, "lineno", fn.lineno)} {q}',
                         expected='hex()/bin()/oct() or the length-safe helper, or a range refusal before it is stored / passed on')
        if tainted:
            rep.ok('C14.INT-FORMAT', f'{q}:tainted {sorted(tainted)}', f'{len(sinks)} formatting sites examined', f'{rel}:{fn.lineno} {q}')
    rep.notes.append(f'C14.INT-FORMAT: producers beyond the evaluators: {sorted(producers - UNBOUNDED_INT_PRODUCERS)}; tainted fields: {sorted(fields)}')
    # the helper itself falls back instead of raising
    if repo.has_func(EXPR, 'int_to_str'):
        h = repo.func(EXPR, 'int_to_str')
        # every path: the decimal text when str() works, a hex()/bin()/oct() text when it raises ValueError - whether each path
        # returns at once or binds one result variable returned at the end (forward substitution over the function)
        from ..pysubst import block_outcomes
        tr = [t for t in ast.walk(h) if isinstance(t, ast.Try)]
        def value_of(stmts: List[ast.stmt], tail: List[ast.stmt]) -> Optional[str]:
            outs_ = block_outcomes(list(stmts) + list(tail), label='int_to_str')
            vals_ = set()
            for o_ in outs_:
                if o_.result[0] != 'return' or o_.result[1] is None:
                    return None
                v_ = o_.result[1]
                for e_ in o_.effects:
                    if ' := ' in e_ and e_.split(' := ', 1)[0] == v_:
                        v_ = e_.split(' := ', 1)[1]
                vals_.add(v_)
            return next(iter(vals_)) if len(vals_) == 1 else None
        ok = False
        if len(tr) == 1 and tr[0] in h.body and not tr[0].orelse and not tr[0].finalbody:
            tail = h.body[h.body.index(tr[0]) + 1:]
            p0 = [a.arg for a in h.args.args][0]
            fast = value_of(tr[0].body, tail)
            slow = [value_of(hd.body, tail) for hd in tr[0].handlers if 'ValueError' in handler_types(hd)]
            ok = fast == f'str({p0})' and len(slow) == 1 and slow[0] in (f'hex({p0})', f'bin({p0})', f'oct({p0})')
        rep.check(ok, 'C14.INT-FORMAT', 'int_to_str:fallback', 'str() with a ValueError fallback to hex()', f'{EXPR}:{h.lineno}')
    sv = repo.func(EXPR, 'Expr.__str__')
    ints = [norm(r.value) for i in ast.walk(sv) if isinstance(i, ast.If) and 'isinstance(self.value, int)' in norm(i.test)
            for r in i.body if isinstance(r, ast.Return)]
    rep.check(bool(ints) and all(v.split('(')[0] in SAFE_INT_FORMATTERS for v in ints), 'C14.INT-FORMAT', 'Expr.__str__:int-branch', str(ints),
              f'{EXPR}:{sv.lineno}', expected='the int value printed through a safe formatter')


def rule_parser_callbacks(rep: Report, repo: Repo) -> None:
    rep.rule('C14.CALLBACKS', 'the sly error callbacks (FJLexer.error, FJParser.error) run with whatever token the library hands over - none '
             'at end of input: inside them no inherited sly method is called except the recovery API (errok / restart); '
             'Parser.line_position / index_position look their argument up in a table of production values and raise KeyError for '
             'anything else', 2)
    for cls in ('FJLexer', 'FJParser'):
        own = set(repo.methods(PARSER, cls))
        fn = repo.func(PARSER, f'{cls}.error')
        inherited = sorted({dotted(c.func) for c in calls(fn) if dotted(c.func).startswith('self.') and dotted(c.func).count('.') == 1
                            and dotted(c.func).split('.')[1] not in own})
        bad = [x for x in inherited if x.split('.')[1] not in ('errok', 'restart')]
        rep.check(not bad, 'C14.CALLBACKS', f'{cls}.error', f'inherited calls {inherited}', f'{PARSER}:{fn.lineno} {cls}.error',
                  expected='no library lookups in the error callback (the token may be None)')


def rule_funnel(rep: Report, repo: Repo) -> None:
    rep.rule('C14.FUNNEL', 'assemble() lets library exceptions pass unchanged and wraps everything else', 1)
    asm = repo.func(ASM, 'assemble')
    tr = [n for n in asm.body if isinstance(n, ast.Try)]
    ok = False
    if tr:
        hs = tr[-1].handlers
        kinds = [handler_types(h) for h in hs]
        sub = make_hierarchy(repo)
        # first: library exceptions pass unchanged; last: everything else wrapped; in between only handlers that convert
        # one specific builtin exception into a specific library exception (e.g. RecursionError)
        ok = len(hs) >= 2 and kinds[0] == ['FlipJumpException'] and kinds[-1] == ['Exception'] and \
            isinstance(hs[0].body[0], ast.Raise) and (hs[0].body[0].exc is None or norm(hs[0].body[0].exc) == hs[0].name) and \
            raised_class(hs[-1].body[0]) == 'FlipJumpAssemblerException' and \
            all(handler_converts(h, sub) == 'library' and not any(t in ('Exception', 'BaseException') for t in handler_types(h))
                for h in hs[1:-1])          # type: ignore[arg-type]
    rep.check(ok, 'C14.FUNNEL', 'assemble:handlers', 'FlipJumpException re-raised; specific conversions; Exception wrapped last',
              f'{ASM}:{asm.lineno}')


def check(rep: Report, repo: Optional[Repo] = None) -> None:
    repo = repo or Repo()
    clo = closure(repo)
    rep.units = dict(modules=MODULES, functions_in_closure=len(clo), sample=[q for _, q, _ in clo][:12])
    if len(clo) < 120:
        raise AnalysisError(f'assemble() closure shrank to {len(clo)} functions')
    rule_funnel(rep, repo)
    rule_escape(rep, repo, clo)
    rule_list_stores(rep, repo)
    rule_recursion(rep, repo, clo)
    rule_raises(rep, repo, clo)
    rule_write_last(rep, repo)
    rule_progress(rep, repo, clo)
    rule_int_format(rep, repo, clo)
    rule_parser_callbacks(rep, repo)
    rep.assumptions += ['OSError (unreadable source / unwritable output path) is environmental and outside "for every source text"',
                        'memory_width reaching assemble() is one the Writer accepted (8/16/32/64)',
                        'sly itself raises nothing on arbitrary token streams (it reports through the error callbacks)']
    rep.not_decided.append('termination/running time for astronomically large rep counts or ** operands')


MANIFEST = dict(
    technique='exception-escape analysis over the assemble() call closure with guard/handler discharge',
    level_text='Static: all implicitly raising constructs in the call closure of assemble() (~170 functions, ~90 sites) are '
               'enumerated and each is discharged by an enclosing converting handler, a dominating guard, a membership test on '
               'the same container, a constant operand, or a one-symbol allow-list entry with its reason; explicit raises are '
               'specific library exceptions; the output file is opened only after packing; while loops progress. Undischarged '
               'sites are reported (recorded findings stay listed).',
    level_note='Trusted: CPython ast; the name-based (over-approximating) call closure; the allow-list reasons in rules/c14.py.',
    design_ref='DESIGN.md section 4 C14',
)
