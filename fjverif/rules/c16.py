"""C16 - the debug label table is exact (who-may-write, same-table dataflow, codec and resolution shapes)."""
from __future__ import annotations

import ast
from typing import Any, Dict, List, Optional, Set, Tuple

from ..core import AnalysisError, Report
from ..names import fixed_text_of_fstring, identifier_alphabet, label_table_writers
from ..pysubst import block_outcomes
from ..pyfacts import Repo, cc, cn, normalize_tuple_unpack, read_through_locals, calls, dotted, norm, walk_no_nested

PRE = 'flipjump/assembler/preprocessor.py'
ASM = 'flipjump/assembler/assembler.py'
FUNCS = 'flipjump/utils/functions.py'
CONSTS = 'flipjump/utils/constants.py'
BRK = 'flipjump/interpreter/debugging/breakpoints.py'


def rule_writers(rep: Report, repo: Repo) -> None:
    rep.rule('C16.WRITERS', 'the label table is written only by insert_label (which detects duplicates and records the position) and by '
             'synthetic writers whose names no identifier can spell and which carry a per-table counter', 3)
    alpha = identifier_alphabet(repo)
    writers = label_table_writers(repo)
    names = sorted({w[1] for w in writers})
    # insert_label plus exactly two synthetic writers (one per table owner: the wflip labels of the emitter, the wflip-area start
    # label of the preprocessor) - the synthetic ones are judged below by what they write, whatever they are called
    rep.check('insert_label' in names and len(names) == 3 and sorted({w[0] for w in writers}) == sorted({PRE, ASM}), 'C16.WRITERS', 'writer-set',
              str(names), PRE, expected='insert_label + one synthetic writer in the preprocessor + one in the assembler')
    for rel, fn, key, node in writers:
        site = f'{rel}:{node.lineno} {fn}'
        if fn == 'insert_label':
            f = repo.func(PRE, 'PreprocessorData.insert_label')
            dup = any(isinstance(n, ast.If) and cn(n.test) == cc('label in self.labels') and any(
                isinstance(c, ast.Call) and dotted(c.func) == 'macro_resolve_error' for c in ast.walk(n)) for n in ast.walk(f))
            pos = any(norm(s) == 'self.labels_code_positions[label] = code_position' for s in f.body)
            # the duplicate check precedes the store
            order = min(n.lineno for n in ast.walk(f) if isinstance(n, ast.If) and cn(n.test) == cc('label in self.labels')) < node.lineno if dup else False
            rep.check(dup and pos and order, 'C16.WRITERS', 'insert_label', f'duplicate detection={dup} before store={order}, position recorded={pos}', site)
        else:
            fixed = fixed_text_of_fstring(key, repo, rel)
            fresh = any(ch not in alpha for ch in fixed)
            # a counter that is incremented right after the write makes the names distinct
            holder = repo.func(rel, ('PreprocessorData.' if rel == PRE else 'BinaryData.') + fn)
            counters = [norm(s.target) for s in ast.walk(holder) if isinstance(s, ast.AugAssign) and isinstance(s.op, ast.Add) and norm(s.value) == '1' and norm(s.target).startswith('self.')]
            counted = any(c in norm(key) for c in counters)
            rep.check(fresh and counted, 'C16.WRITERS', fn, f'name {norm(key)[:60]}: non-identifier char={fresh}, counter {counters} in name={counted}', site,
                      expected='lexer-impossible prefix + running counter')
            # the counter never goes back while the table lives: its only stores in the class are the `= <const>` of __init__ and the
            # `+= 1` of this writer (a reset per segment would hand out the same names again: later labels overwrite earlier ones)
            cls = 'PreprocessorData' if rel == PRE else 'BinaryData'
            for cnt in [c for c in counters if c in norm(key)]:
                others = []
                for mname, fns in repo.methods(rel, cls).items():
                    for st in ast.walk(fns[-1]):
                        tgts = st.targets if isinstance(st, ast.Assign) else [st.target] if isinstance(st, (ast.AugAssign, ast.AnnAssign)) else []
                        for t in tgts:
                            for tt in (t.elts if isinstance(t, ast.Tuple) else [t]):
                                if norm(tt) != cnt:
                                    continue
                                init_ok = mname == '__init__' and isinstance(st, (ast.Assign, ast.AnnAssign)) and isinstance(st.value, ast.Constant)
                                inc_ok = mname == fn and isinstance(st, ast.AugAssign) and isinstance(st.op, ast.Add) and norm(st.value) == '1'
                                if not (init_ok or inc_ok):
                                    others.append(f'{cls}.{mname}:{st.lineno}: {norm(st)}')
                rep.check(not others, 'C16.WRITERS', f'{fn}:counter {cnt} is monotone', str(others) if others else 'set once in __init__, +1 per name',
                          site, expected='no other store to the counter')


def rule_same_table(rep: Report, repo: Repo) -> None:
    rep.rule('C16.SAME-TABLE', 'in assemble() the dictionary returned by macro resolution is the one the labels are resolved with and the '
             'one saved, and it is saved after resolution (so the wflip labels are included); the preprocessor returns its live table', 2)
    asm = normalize_tuple_unpack(repo.func(ASM, 'assemble'))        # `t = f(); a = t[0]; b = t[1]` reads as `a, b = f()`
    tgt = None
    for st in ast.walk(asm):
        if isinstance(st, ast.Assign) and isinstance(st.value, ast.Call) and dotted(st.value.func) == 'resolve_macros' and isinstance(st.targets[0], ast.Tuple):
            tgt = [norm(e) for e in st.targets[0].elts]
    lr = [c for c in calls(asm) if dotted(c.func) == 'labels_resolve']
    sv = [c for c in calls(asm) if dotted(c.func) == 'save_debugging_labels']
    ok = tgt is not None and len(lr) == 1 and len(sv) == 1 and norm(lr[0].args[1]) == tgt[1] and norm(sv[0].args[1]) == tgt[1] \
        and norm(lr[0].args[0]) == tgt[0] and lr[0].lineno < sv[0].lineno
    reassigned = [n.lineno for n in ast.walk(asm) if isinstance(n, ast.Assign) and tgt and any(norm(t) == tgt[1] for t in n.targets)]
    rep.check(ok and not reassigned, 'C16.SAME-TABLE', 'assemble', f'resolve_macros -> {tgt}; labels_resolve({[norm(a) for a in lr[0].args[:2]] if lr else None}); '
              f'save(..., {norm(sv[0].args[1]) if sv else None}) after resolution', f'{ASM}:{asm.lineno}')
    gr = repo.func(PRE, 'PreprocessorData.get_result_ops_and_labels')
    gr = read_through_locals(gr)           # locals that merely name the two members read as the members
    rets = [norm(r.value) for r in ast.walk(gr) if isinstance(r, ast.Return)]
    bd = repo.func(ASM, 'BinaryData.__init__')
    kept = any(norm(s) == 'self.labels = labels' for s in bd.body)
    lrf = repo.func(ASM, 'labels_resolve')
    passed = [norm(c) for c in calls(lrf) if dotted(c.func) == 'BinaryData']
    rep.check(rets == ['(self.result_ops, self.labels)'] and kept and passed == ['BinaryData(memory_width, first_segment, labels)'], 'C16.SAME-TABLE',
              'table-identity', f'preprocessor returns {rets}; BinaryData keeps the same object={kept}; {passed}', f'{PRE}:{gr.lineno}')


def rule_codec(rep: Report, repo: Repo) -> None:
    rep.rule('C16.CODEC', 'saving and loading the label file use the same encoding / format / filter constants from one module, and '
             'json over Dict[str, int]', 2)
    sv, ld = repo.func(FUNCS, 'save_debugging_labels'), repo.func(FUNCS, 'load_debugging_labels')
    def kws(fn: ast.FunctionDef, name: str) -> Dict[str, str]:
        c = [c for c in calls(fn) if dotted(c.func) == name]
        return {k.arg: norm(k.value) for k in c[0].keywords} if c else {}
    comp, dec = kws(sv, 'lzma.compress'), kws(ld, 'lzma.decompress')
    enc = [norm(c.args[0]) for c in calls(sv) if dotted(c.func).endswith('.encode')]
    decd = [norm(c.args[0]) for c in calls(ld) if dotted(c.func).endswith('.decode')]
    rep.check(comp == dec == {'format': 'DEBUG_JSON_LZMA_FORMAT', 'filters': 'DEBUG_JSON_LZMA_FILTERS'} and enc == decd == ['DEBUG_JSON_ENCODING'],
              'C16.CODEC', 'constants', f'compress {comp}; decompress {dec}; encode {enc}; decode {decd}', f'{FUNCS}:{sv.lineno}')
    js = [norm(c) for c in calls(sv) if dotted(c.func) == 'json.dumps'] + [dotted(c.func) for c in calls(ld) if dotted(c.func) == 'json.loads']
    rep.check(js == ['json.dumps(labels)', 'json.loads'], 'C16.CODEC', 'json', str(js), f'{FUNCS}:{sv.lineno}',
              expected='json.dumps(labels) / json.loads - string keys and ints round-trip losslessly')


def rule_resolve(rep: Report, repo: Repo) -> None:
    rep.rule('C16.RESOLVE', 'exact breakpoints index the table by name; substring breakpoints test `sub in label` over all labels; the '
             'address->label map prefers the shortest name deterministically', 3)
    ex = repo.func(BRK, 'update_breakpoints_from_breakpoint_set')
    # exact names: the innermost loop body (forward substitution): a name in the table sets breakpoints[table[name]] = name and a
    # name not in it only warns - whichever branch comes first
    body = ''
    ok = False
    fors = [n for n in ast.walk(ex) if isinstance(n, ast.For) and isinstance(n.target, ast.Name)]
    if fors:
        lv = fors[-1].target.id
        outs = block_outcomes(fors[-1].body, {}, 'exact-breakpoints:loop')
        hit = [o for o in outs if f'{lv} in label_to_address' in o.conds]
        miss = [o for o in outs if f'{lv} not in label_to_address' in o.conds]
        ok = (len(outs) == len(hit) + len(miss) and bool(hit) and bool(miss)
              and all(o.effects == [f'breakpoints[label_to_address[{lv}]] = {lv}'] for o in hit)
              and all(not any(e.startswith('breakpoints[') for e in o.effects) for o in miss))
        body = str([(o.conds, o.effects) for o in outs])
    rep.check(ok, 'C16.RESOLVE', 'exact', body[:220], f'{BRK}:{ex.lineno}')
    co = repo.func(BRK, 'update_breakpoints_from_breakpoint_contains_set')
    # substring breakpoints: for every label (walked from the last to the first, so the first label wins an address) and every
    # substring, `sub in label` sets breakpoints[table[label]] = label
    fors = [n for n in ast.walk(co) if isinstance(n, ast.For) and isinstance(n.target, ast.Name)]
    ok = False
    body = ''
    if len(fors) == 2:
        outer, inner = (fors[0], fors[1]) if any(x is fors[1] for x in ast.walk(fors[0])) else (fors[1], fors[0])
        lab, sub = outer.target.id, inner.target.id
        rev = norm(outer.iter) in ('tuple(label_to_address)[::-1]', 'reversed(tuple(label_to_address))', 'reversed(list(label_to_address))',
                                   'list(label_to_address)[::-1]', 'reversed(label_to_address)')
        outs = block_outcomes(inner.body, {}, 'substring-breakpoints:loop')
        hit = [o for o in outs if f'{sub} in {lab}' in o.conds]
        miss = [o for o in outs if f'{sub} not in {lab}' in o.conds]
        ok = (rev and norm(inner.iter) == 'breakpoint_contains_labels' and len(outs) == len(hit) + len(miss) and bool(hit)
              and all(o.effects == [f'breakpoints[label_to_address[{lab}]] = {lab}'] for o in hit) and all(not o.effects for o in miss))
        body = f'labels {norm(outer.iter)}; ' + str([(o.conds, o.effects) for o in outs])
    rep.check(ok, 'C16.RESOLVE', 'substring', body[:240], f'{BRK}:{co.lineno}')
    gh = repo.func(BRK, 'get_breakpoint_handler')
    loop = [n for n in ast.walk(gh) if isinstance(n, ast.For) and norm(n.iter) == 'label_to_address.items()']
    txt = norm(loop[0]).replace('\n', ' ') if loop else ''
    # the loop body by forward substitution: the store address_to_label[address] = label happens on every path except the one
    # where the address already has a name that is not longer (whatever way the test is nested / merged / negated)
    ok = False
    if loop:
        outs = block_outcomes(loop[0].body, {}, 'get_breakpoint_handler:loop')
        skip = [o for o in outs if o.result[0] == 'continue']
        store = [o for o in outs if o.result[0] == 'fall']
        want_skip = sorted(['address in address_to_label', 'len(address_to_label[address]) <= len(label)'])
        ok = (len(skip) == 1 and sorted(skip[0].conds) == want_skip and not skip[0].effects and len(store) >= 1
              and all(o.effects == ['address_to_label[address] = label'] for o in store) and len(outs) == len(skip) + len(store))
        txt = str([(o.conds, o.effects, o.result[0]) for o in outs])
    rep.check(ok, 'C16.RESOLVE', 'address-to-label', txt[:260], f'{BRK}:{gh.lineno}', expected='keep the strictly shorter name')


def rule_start_labels(rep: Report, repo: Repo) -> None:
    rep.rule('C16.START-LABELS', 'macro start labels go through insert_label and only at addresses where no label sits', 1)
    f = repo.func(PRE, 'PreprocessorData.insert_macro_start_labels_if_their_address_not_used')
    # the recorded start labels are records (address, label, position) - a tuple, or a NamedTuple / dataclass with those fields.
    # producer: insert_macro_start_label records (self.curr_address, label, code_position); consumer: the loop body (by forward
    # substitution) reaches insert_label(<label component>, <position component>, address=<address component>) exactly on the
    # paths where <address component> has no label yet. Components are matched by position, whatever they are called.
    prod = repo.func(PRE, 'PreprocessorData.insert_macro_start_label')
    rec_args: List[str] = []
    fields: List[str] = []
    for c in calls(prod):
        if dotted(c.func) == 'self.macro_start_labels.append' and len(c.args) == 1:
            a0 = c.args[0]
            if isinstance(a0, ast.Tuple):
                rec_args = [norm(e) for e in a0.elts]
            elif isinstance(a0, ast.Call) and isinstance(a0.func, ast.Name) and not a0.keywords:
                rec_args = [norm(e) for e in a0.args]
                try:
                    cdef = repo.cls(PRE, a0.func.id)
                    fields = [st.target.id for st in cdef.body if isinstance(st, ast.AnnAssign) and isinstance(st.target, ast.Name)]
                except AnalysisError:
                    fields = []
    prod_ok = rec_args == ['self.curr_address', 'label', 'code_position']
    ok = False
    loops = [n for n in ast.walk(f) if isinstance(n, ast.For)]
    if len(loops) == 1:
        tgt = loops[0].target

        def comp(e: str) -> Optional[int]:
            if isinstance(tgt, ast.Tuple):
                names_ = [norm(x) for x in tgt.elts]
                return names_.index(e) if e in names_ else None
            if isinstance(tgt, ast.Name) and e.startswith(tgt.id + '.') and e.split('.', 1)[1] in fields:
                return fields.index(e.split('.', 1)[1])
            if isinstance(tgt, ast.Name) and e.startswith(tgt.id + '[') and e.endswith(']') and e[len(tgt.id) + 1:-1].isdigit():
                return int(e[len(tgt.id) + 1:-1])
            return None
        outs = block_outcomes(loops[0].body, {}, 'start-labels:loop')
        ins = [o for o in outs if any(e.startswith('self.insert_label(') for e in o.effects)]
        skip = [o for o in outs if o not in ins]

        def good(o: Any) -> bool:
            eff = [e for e in o.effects if e.startswith('self.insert_label(')]
            if len(eff) != 1:
                return False
            call = ast.parse(eff[0], mode='eval').body
            kw = {k.arg: norm(k.value) for k in call.keywords}          # type: ignore[attr-defined]
            pos = [norm(a) for a in call.args]                          # type: ignore[attr-defined]
            addr = kw.get('address')
            return (addr is not None and comp(addr) == 0 and len(pos) == 2 and comp(pos[0]) == 1 and comp(pos[1]) == 2
                    and f'{addr} not in self.addresses_with_labels' in o.conds)
        ok = prod_ok and bool(ins) and all(good(o) for o in ins) and all(not o.effects and any(c.endswith(' in self.addresses_with_labels') and ' not in ' not in c
                                                                                                 for c in o.conds) for o in skip)
    il = repo.func(PRE, 'PreprocessorData.insert_label')
    tracked = any(norm(s) == 'self.addresses_with_labels.add(address)' for s in il.body)
    fin = repo.func(PRE, 'PreprocessorData.finish')
    called = any(dotted(c.func) == 'self.insert_macro_start_labels_if_their_address_not_used' for c in calls(fin))
    rep.check(ok and tracked and called, 'C16.START-LABELS', 'start-labels', f'guarded={ok}, addresses tracked by insert_label={tracked}, run at finish={called}',
              f'{PRE}:{f.lineno}')


def rule_wflip_labels(rep: Report, repo: Repo) -> None:
    """the label table names the address an op was WRITTEN to: the wflip chain op goes into the spot get_wflip_spot() hands out (a free pad
    slot in the code area, or the next word of the wflip area) - the cursor of the wflip area is that address only when no pad slot is free"""
    rep.rule('C16.WFLIP-LABEL', 'every `:wflips:N` label inserted while a wflip chain is built carries the address of the spot the chain op is stored '
             'into: the argument of the label helper is `<spot>.address` of the very spot object (the result of get_wflip_spot(), read through '
             'locals) whose list / index receive the op in the same block', 1)
    ASM_ = 'flipjump/assembler/assembler.py'
    fn = repo.func(ASM_, 'BinaryData.insert_wflip_ops')
    from ..pyfacts import resolve_names as _rn
    cls = next(c for c in repo.mod(ASM_).body if isinstance(c, ast.ClassDef) and c.name == 'BinaryData')
    gs = next((m for m in cls.body if isinstance(m, ast.FunctionDef) and m.name == 'get_wflip_spot'), None)
    if gs is None:
        raise AnalysisError('C16.WFLIP-LABEL: BinaryData.get_wflip_spot not found')
    # the spot record: field order from its class (dataclass / NamedTuple), roles from the constructor call of the wflip-area branch
    ctor = [c for c in ast.walk(gs) if isinstance(c, ast.Call) and isinstance(c.func, ast.Name) and c.func.id[:1].isupper() and len(c.args) + len(c.keywords) == 3]
    rec = next((c for c in repo.mod(ASM_).body if isinstance(c, ast.ClassDef) and ctor and c.name == ctor[0].func.id), None)       # type: ignore[attr-defined]
    if rec is None:
        raise AnalysisError('C16.WFLIP-LABEL: the spot record built by get_wflip_spot was not found')
    fields = [st.target.id for st in rec.body if isinstance(st, ast.AnnAssign) and isinstance(st.target, ast.Name)]
    addr_i = list_i = None
    for c in ctor:
        args = {i: _rn(gs, a_) for i, a_ in enumerate(c.args)}
        args.update({fields.index(k.arg): _rn(gs, k.value) for k in c.keywords if k.arg in fields})
        for i, a_ in args.items():
            if norm(a_) == 'self.next_wflip_address':
                addr_i = i
            if norm(a_) == 'self.wflip_words':
                list_i = i
    if addr_i is None or list_i is None or len(fields) != 3:
        raise AnalysisError(f'C16.WFLIP-LABEL: roles of the spot record fields {fields} not recognised')
    addr_f, list_f = fields[addr_i], fields[list_i]
    # the label writers are found by what they do, not by name: methods of the class that store, under self.labels[..], a parameter or
    # the address field of a parameter
    writers = {}
    for m in [m for m in cls.body if isinstance(m, ast.FunctionDef)]:
        params = [a.arg for a in m.args.args][1:]
        for a in ast.walk(m):
            if isinstance(a, ast.Assign) and any(isinstance(t, ast.Subscript) and norm(t.value) == 'self.labels' for t in a.targets):
                v = _rn(m, a.value)
                if isinstance(v, ast.Name) and v.id in params:
                    writers[m.name] = (params.index(v.id), params, False)
                elif isinstance(v, ast.Attribute) and v.attr == addr_f and isinstance(v.value, ast.Name) and v.value.id in params:
                    writers[m.name] = (params.index(v.value.id), params, True)
    labels = []                 # (site node, address expression, the expression is the spot itself)
    for c in ast.walk(fn):
        if isinstance(c, ast.Call) and dotted(c.func).startswith('self.') and dotted(c.func)[5:] in writers:
            i, params, is_spot = writers[dotted(c.func)[5:]]
            e = c.args[i] if i < len(c.args) else next((k.value for k in c.keywords if k.arg == params[i]), None)
            if e is not None:
                labels.append((c, e, is_spot))
        elif isinstance(c, ast.Assign) and any(isinstance(t, ast.Subscript) and norm(t.value) == 'self.labels' for t in c.targets):
            labels.append((c, c.value, False))
    if not labels:
        raise AnalysisError('C16.WFLIP-LABEL: insert_wflip_ops inserts no wflip label (a store into self.labels, directly or through a method of BinaryData, expected)')
    # the spots taken in this function: `s = self.get_wflip_spot()` (address s.<address>, list s.<list>) or the record unpacked into names
    spot_addr, spot_list, spots = set(), set(), []
    for a in ast.walk(fn):
        if isinstance(a, ast.Assign) and isinstance(a.value, ast.Call) and dotted(a.value.func).endswith('get_wflip_spot'):
            for t in a.targets:
                if isinstance(t, ast.Name):
                    spot_addr.add(f'{t.id}.{addr_f}')
                    spot_list.add(f'{t.id}.{list_f}')
                    spots.append((f'{t.id}.{addr_f}', f'{t.id}.{list_f}'))
                elif isinstance(t, ast.Tuple) and len(t.elts) == 3:
                    spot_addr.add(norm(t.elts[addr_i]))
                    spot_list.add(norm(t.elts[list_i]))
                    spots.append((norm(t.elts[addr_i]), norm(t.elts[list_i])))
    def through(e: ast.expr) -> str:
        # read through locals, but not through the names the record was unpacked into
        return norm(e) if norm(e) in spot_addr | spot_list else norm(_rn(fn, e))
    stored = set()
    for a in ast.walk(fn):
        for t in (a.targets if isinstance(a, ast.Assign) else []):
            if isinstance(t, ast.Subscript):
                stored.add(through(t.value))
    for c, e, is_spot in labels:
        txt = norm(e)
        got = through(e) + (f'.{addr_f}' if is_spot else '')
        ok = any(got == a_ and l_ in stored for a_, l_ in spots)          # the address of a spot whose own list receives the op
        rep.check(ok, 'C16.WFLIP-LABEL', f'insert_wflip_ops:{"label address" if ok else txt}', 'the address of the spot the op is stored into' if ok else
                  f'the label gets `{txt}`, not the address of the spot returned by get_wflip_spot() ({sorted(spot_addr)}): when a free pad slot is reused the '
                  f'op lives in the code area while the label names the cursor of the wflip area', repo.site(ASM_, c), expected='<spot>.address')


def check(rep: Report, repo: Optional[Repo] = None) -> None:
    repo = repo or Repo()
    rep.units = dict(files=[PRE, ASM, FUNCS, BRK])
    rule_writers(rep, repo)
    rule_same_table(rep, repo)
    rule_codec(rep, repo)
    rule_resolve(rep, repo)
    rule_start_labels(rep, repo)
    rule_wflip_labels(rep, repo)
    rep.not_decided.append('that every label address equals its statement address (follows from C02.ADDR-MODEL, not separately decided)')


MANIFEST = dict(
    technique='who-may-write analysis of the label table; dataflow identity of the saved table; codec constant agreement',
    level_text='Static, structural: only insert_label (duplicate-detecting) and two lexer-impossible, counter-suffixed synthetic '
               'families write the label table; the table saved is the object the labels were resolved with, saved after resolution; '
               'save/load share their codec constants; breakpoint resolution has the documented shapes. Address exactness itself '
               'rests on C02.ADDR-MODEL.',
    level_note='Trusted: CPython ast; json round-trips Dict[str,int]; identifier alphabet from the lexer regexes.',
    design_ref='DESIGN.md section 4 C16',
)
