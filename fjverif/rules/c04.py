"""C04 - hex library macros compute their documented function (structural necessary conditions only)."""
from __future__ import annotations
from typing import Optional
from ..core import Report
from ..fjfront import Stl
from ..pyfacts import Repo
from ..stlrules import rule_carry, rule_ret_restore, rule_closure, rule_extent, rule_lut, rule_alias, rule_scratch, rule_const_fits, rule_carry_top, rule_jumpword_restore, rule_alias_safe, rule_exit_clean, rule_sibling_guards, rule_rem_fix

FILES = ['flipjump/stl/hex/memory.fj', 'flipjump/stl/hex/logics.fj', 'flipjump/stl/hex/math.fj', 'flipjump/stl/hex/math_basic.fj',
         'flipjump/stl/hex/shifts.fj', 'flipjump/stl/hex/cond_jumps.fj', 'flipjump/stl/hex/mul.fj', 'flipjump/stl/hex/div.fj',
         'flipjump/stl/hex/tables_init.fj', 'flipjump/stl/runlib.fj']


def check(rep: Report, repo: Optional[Repo] = None) -> None:
    repo = repo or Repo()
    stl = Stl(repo)
    rep.units = dict(stl_files=len(stl.files), macros=len(stl.macros), property_files=FILES)
    rule_closure(rep, stl, 'C04', FILES, 250)
    rule_extent(rep, stl, 'C04', FILES, 55, widths=(64,) if rep.tier == 'quick' else (16, 32, 64))
    rule_lut(rep, stl)
    rule_carry(rep, stl)
    rule_ret_restore(rep, stl, FILES)
    rule_scratch(rep, stl, 'C04', FILES, 45)
    rule_alias(rep, stl, 'C04', FILES, 4)
    rule_const_fits(rep, stl, 'C04', FILES, 3)
    rule_carry_top(rep, stl, 'C04', FILES, 6)
    rule_jumpword_restore(rep, stl, 'C04', FILES, 8)
    rule_alias_safe(rep, stl, 'C04', FILES, 1)
    rule_exit_clean(rep, stl, 'C04', FILES, 1)
    rule_sibling_guards(rep, stl, 'C04', FILES, 6)
    rule_rem_fix(rep, stl, 'C04', FILES, 1)
    rep.assumptions.append('footprints assume generic position: distinct symbolic operands of a compile-time `==` / `!=` aliasing test denote distinct variables')
    rep.not_decided += ['the flip-chain semantics of every macro for every operand (needs execution of FlipJump code): table dispatch '
                        'protocol, shifts, mul/div, comparisons beyond the leaf tables',
                        'that sources and unrelated variables are left unchanged']


MANIFEST = dict(
    technique='own .fj front end: link closure, doc-extent vs computed cell footprint, constant-folded lookup tables, carry bracketing; scratch / alias / jump-word typestate / constant-width rules; in-place arithmetic reaches the top of the assigned extent (CARRY-TOP)',
    level_text='Also: documented scratch cells are initialised before use, documented alias hazards are respected, a borrowed jump word is given back on every path out of a macro (typestate over the macro CFG), and constants written into fixed-width vectors fit with the sign bit free for sign-tested counters. Static, PARTIAL: decides four structural necessary conditions of C04 from the macro text - every call and global label '
               'reachable from the hex files resolves (name and arity); each documented vector extent equals the computed cell footprint '
               'of that parameter (154 frozen triples library-wide, instantiated for sizes 4/5/8); the or/and/add/sub/cmp/mul leaf tables '
               'equal their documented function on all 256 indices (constant folding, not execution); carry chains are bracketed by '
               'clear_carry. It does NOT decide that the macros compute the documented value for every operand.',
    level_note='Trusted: fjfront (own parser, cross-checked against a textual def scan), the frozen triples in spec/stl_extents.json. '
               'The value-level body of C04 needs execution of FlipJump code and is outside this technique family.',
    design_ref='DESIGN.md section 4 C04/C05/C08/C09',
)
