"""C12 - constant expressions evaluate as unbounded-integer arithmetic (structural clauses)."""
from __future__ import annotations

import ast
import re
from typing import Any, Dict, List, Optional, Set, Tuple

from ..core import AnalysisError, Report
from ..pysubst import method_outcomes
from ..pyfacts import Repo, cc, clone, cn, eval_int_expr, normalize_indexed_loops, calls, dotted, fold, norm, walk_no_nested

PARSER = 'flipjump/assembler/fj_parser.py'
EXPR = 'flipjump/assembler/inner_classes/expr.py'

# reference precedence partition, lowest to highest (DESIGN.md appendix B2; confirmed from FJParser.precedence on the
# pinned tree and programs/sanity_checks/math_operators.fj; the external language page cannot be consulted offline)
REF_LEVELS = [
    ('right', {'?', ':'}), ('left', {'||'}), ('left', {'&&'}), ('left', {'|'}), ('left', {'^'}),
    ('nonassoc', {'<', '>', '<=', '>='}), ('left', {'==', '!='}), ('left', {'&'}), ('left', {'<<', '>>'}),
    ('left', {'+', '-'}), ('left', {'*', '/', '%'}), ('unary', {'#', 'UMINUS', 'UNOT'}), ('right', {'**'}),
]
REF_OPERATOR_IMPORTS = {'+': 'add', '-': 'sub', '*': 'mul', '/': 'floordiv', '%': 'mod', '<<': 'lshift', '>>': 'rshift',
                        '^': 'xor', '|': 'or_', '&': 'and_'}
REF_ESCAPES = {'0': 0x0, 'a': 0x7, 'b': 0x8, 'e': 0x1B, 'f': 0xC, 'n': 0xA, 'r': 0xD, 't': 0x9, 'v': 0xB,
               '\\': 0x5C, "'": 0x27, '"': 0x22, '?': 0x3F}


def lexer_tokens(repo: Repo) -> Dict[str, str]:
    """token name -> the operator text it matches (regex escapes removed)."""
    lex = repo.cls(PARSER, 'FJLexer')
    out: Dict[str, str] = {}
    for st in lex.body:
        if isinstance(st, ast.Assign) and len(st.targets) == 1 and isinstance(st.targets[0], ast.Name) \
                and isinstance(st.value, ast.Constant) and isinstance(st.value.value, str):
            out[st.targets[0].id] = re.sub(r'\\(.)', r'\1', st.value.value)
    return out


def grammar_rules(repo: Repo) -> List[Tuple[str, ast.FunctionDef]]:
    """(rule text, method) for every @_('...') method of FJParser."""
    out = []
    for st in repo.cls(PARSER, 'FJParser').body:
        if isinstance(st, ast.FunctionDef):
            for d in st.decorator_list:
                if isinstance(d, ast.Call) and dotted(d.func) == '_' and d.args and isinstance(d.args[0], ast.Constant):
                    out.append((d.args[0].value, st))
    return out


def _tok_text(tok: str, toks: Dict[str, str]) -> str:
    if tok.startswith('"') and tok.endswith('"'):
        return tok[1:-1]
    return toks.get(tok, tok)


def rule_prec(rep: Report, repo: Repo) -> None:
    rep.rule('C12.PREC', 'FJParser.precedence, read as an ordered partition of operator tokens with associativity, equals the '
             '13-level reference; each binary token of an expr_ rule is in exactly one level; prefix rules take the unary '
             'level, which lies between * / % and **', 16)
    toks = lexer_tokens(repo)
    prec = None
    for st in repo.cls(PARSER, 'FJParser').body:
        if isinstance(st, ast.Assign) and isinstance(st.targets[0], ast.Name) and st.targets[0].id == 'precedence':
            prec = st.value
    if not isinstance(prec, ast.Tuple):
        raise AnalysisError('FJParser.precedence not found')
    levels: List[Tuple[str, Set[str]]] = []
    for e in prec.elts:
        if not isinstance(e, ast.Tuple):
            raise AnalysisError('precedence entry is not a tuple')
        assoc = e.elts[0].value              # type: ignore[attr-defined]
        ops = set()
        for t in e.elts[1:]:
            if isinstance(t, ast.Name):
                ops.add(toks.get(t.id, t.id))
            elif isinstance(t, ast.Constant):
                ops.add(t.value)
        levels.append((assoc, ops))
    site = f'{PARSER}:{prec.lineno} FJParser.precedence'
    # drop the fictitious LEADING_ID level (statement-level disambiguation, not an operator)
    core = [(a, o) for a, o in levels if o != {'LEADING_ID'}]
    rep.check(len(core) == len(REF_LEVELS), 'C12.PREC', 'level-count', f'{len(core)} operator levels', site, expected=str(len(REF_LEVELS)))
    for i, (ra, ro) in enumerate(REF_LEVELS):
        if i >= len(core):
            break
        a, o = core[i]
        ok = o == ro and (a == ra or ra == 'unary')      # associativity of the unary-only level is not observable
        rep.check(ok, 'C12.PREC', f'level {i + 1}: {" ".join(sorted(ro))}', f'{a} {sorted(o)}', site, expected=f'{ra} {sorted(ro)}')
    # binary tokens of the grammar in exactly one level; prefix rules bound to the unary level
    allops = [x for _, o in core for x in o]
    for text, fn in grammar_rules(repo):
        parts = text.split()
        if fn.name != 'expr_':
            continue
        if len(parts) == 3 and parts[0] == 'expr_' and parts[2] == 'expr_':
            t = _tok_text(parts[1], toks)
            rep.check(allops.count(t) == 1, 'C12.PREC', f'binary {t} in one level', f'occurs in {allops.count(t)} level(s)',
                      f'{PARSER}:{fn.lineno}')
        elif len(parts) >= 2 and parts[1] == 'expr_' and parts[0].startswith('"') and parts[0] != '"("':
            t = parts[0][1:-1]
            pr = parts[3] if len(parts) >= 4 and parts[2] == '%prec' else t
            rep.check(pr in REF_LEVELS[11][1], 'C12.PREC', f'prefix {t} precedence', f'bound to {pr}', f'{PARSER}:{fn.lineno}',
                      expected='a member of the unary level (# / UMINUS / UNOT)')


def rule_rule_op(rep: Report, repo: Repo) -> Set[str]:
    rep.rule('C12.RULE-OP', 'each expr_ grammar rule passes the operator string its token is lexed from, with the operands in '
             'source order; unary minus is "-" with Expr(0) first', 22)
    toks = lexer_tokens(repo)
    used: Set[str] = set()
    for text, fn in grammar_rules(repo):
        if fn.name != 'expr_':
            continue
        parts = text.split()
        cs = [c for c in calls(fn) if dotted(c.func) == 'get_minimized_expr']
        if not cs:
            continue
        c = cs[0]
        op = c.args[0].value if isinstance(c.args[0], ast.Constant) else None
        operands = [norm(e) for e in c.args[1].elts] if isinstance(c.args[1], ast.Tuple) else []
        used.add(op)
        site = f'{PARSER}:{fn.lineno} {text}'
        if len(parts) == 3:          # binary
            want_op = _tok_text(parts[1], toks)
            ok = op == want_op and operands == ['p.expr_0[0]', 'p.expr_1[0]']
        elif len(parts) == 5:        # ternary
            want_op = '?:'
            ok = op == '?:' and operands == ['p.expr_0[0]', 'p.expr_1[0]', 'p.expr_2[0]'] and parts[1] == '"?"' and parts[3] == '":"'
        else:                        # prefix
            t = parts[0][1:-1]
            want_op = t
            if t == '-':
                ok = op == '-' and operands == ['Expr(0)', 'p.expr_[0]']
            else:
                ok = op == t and operands == ['p.expr_[0]']
        rep.check(ok, 'C12.RULE-OP', text, f"passes {op!r} with {operands}", site, expected=f'{want_op!r}, operands in order')
    return used


def _lambda_meaning(l: ast.Lambda) -> str:
    params = [a.arg for a in l.args.args]
    ren = {p: f'_{i}' for i, p in enumerate(params)}

    class R(ast.NodeTransformer):
        def visit_Name(self, n: ast.Name) -> ast.AST:
            return ast.copy_location(ast.Name(ren.get(n.id, n.id), n.ctx), n)
    body = R().visit(ast.parse(ast.unparse(l.body), mode='eval').body)
    # accepted spellings: `1 if C else 0`  ==  int(C)  == int(bool(C))
    if isinstance(body, ast.IfExp) and isinstance(body.body, ast.Constant) and body.body.value == 1 \
            and isinstance(body.orelse, ast.Constant) and body.orelse.value == 0:
        return f'bool:{ast.unparse(body.test)}'
    if isinstance(body, ast.Call) and dotted(body.func) == 'int' and len(body.args) == 1:
        inner = body.args[0]
        if isinstance(inner, ast.Call) and dotted(inner.func) == 'bool':
            inner = inner.args[0]
        return f'bool:{ast.unparse(inner)}'
    return ast.unparse(body)


_OPERATOR_COMPARE = {'lt': ast.Lt, 'gt': ast.Gt, 'le': ast.LtE, 'ge': ast.GtE, 'eq': ast.Eq, 'ne': ast.NotEq}


def _entry_as_lambda(repo: Repo, v: ast.expr, imports: Dict[str, str], shadowed: Set[str]) -> ast.expr:
    """a table entry built by a module-level factory - `_as_flag(lt)` with `def _as_flag(p): return lambda a, b: 1 if p(a, b) else 0` -
    read as the lambda it denotes: the factory's parameters are replaced by the arguments, and a call of an operator-module
    comparison function (by import identity) is written as the comparison."""
    from ..pyfacts import clone
    # a named module function whose body is one `return <expr>` is the lambda of its parameters
    if isinstance(v, ast.Name) and repo.has_func(EXPR, v.id):
        fdef = repo.func(EXPR, v.id)
        body0 = [b for b in fdef.body if not (isinstance(b, ast.Expr) and isinstance(b.value, ast.Constant))]
        if len(body0) == 1 and isinstance(body0[0], ast.Return) and body0[0].value is not None and not fdef.decorator_list \
                and not (fdef.args.vararg or fdef.args.kwarg or fdef.args.kwonlyargs or fdef.args.defaults):
            v = ast.Lambda(args=ast.arguments(posonlyargs=[], args=[ast.arg(arg=a.arg) for a in fdef.args.posonlyargs + fdef.args.args], kwonlyargs=[],
                                              kw_defaults=[], defaults=[]), body=clone(body0[0].value))
            ast.fix_missing_locations(v)
    if isinstance(v, ast.Call) and isinstance(v.func, ast.Name) and repo.has_func(EXPR, v.func.id) and not v.keywords:
        fac = repo.func(EXPR, v.func.id)
        body = [b for b in fac.body if not (isinstance(b, ast.Expr) and isinstance(b.value, ast.Constant))]
        params = [a.arg for a in fac.args.args]
        if len(body) == 1 and isinstance(body[0], ast.Return) and isinstance(body[0].value, ast.Lambda) and len(params) == len(v.args):
            b = dict(zip(params, v.args))

            class Bind(ast.NodeTransformer):
                def visit_Name(self, n: ast.Name) -> ast.AST:
                    return clone(b[n.id]) if isinstance(n.ctx, ast.Load) and n.id in b else n
            v = Bind().visit(clone(body[0].value))

    class Infix(ast.NodeTransformer):
        def visit_Call(self, n: ast.Call) -> ast.AST:
            self.generic_visit(n)
            if isinstance(n.func, ast.Name) and n.func.id not in shadowed and imports.get(n.func.id) in _OPERATOR_COMPARE and len(n.args) == 2 \
                    and not n.keywords:
                return ast.Compare(left=n.args[0], ops=[_OPERATOR_COMPARE[imports[n.func.id]]()], comparators=[n.args[1]])
            return n
    if isinstance(v, ast.Lambda):
        v = ast.fix_missing_locations(Infix().visit(clone(v)))
    return v


REF_LAMBDAS = {
    '&&': (2, {'bool:_0 and _1'}), '||': (2, {'bool:_0 or _1'}), '#': (1, {'_0.bit_length()'}), '~': (1, {'~_0'}),
    '?:': (3, {'_1 if _0 else _2'}),
    '<': (2, {'bool:_0 < _1', 'bool:_1 > _0'}), '>': (2, {'bool:_0 > _1', 'bool:_1 < _0'}),
    '<=': (2, {'bool:_0 <= _1', 'bool:_1 >= _0'}), '>=': (2, {'bool:_0 >= _1', 'bool:_1 <= _0'}),
    '==': (2, {'bool:_0 == _1', 'bool:_1 == _0'}), '!=': (2, {'bool:_0 != _1', 'bool:_1 != _0'}),
}


def rule_table(rep: Report, repo: Repo, used: Set[str]) -> None:
    rep.rule('C12.TABLE', 'the strings the grammar passes are exactly the keys of op_string_to_function; every entry has the arity '
             'the grammar supplies and the reference meaning (operator-module functions by identity: / is floordiv; lambdas '
             'after normalising accepted spellings); no entry masks or truncates', 23)
    table = repo.module_assigns(EXPR).get('op_string_to_function')
    if not isinstance(table, ast.Dict):
        raise AnalysisError('op_string_to_function is not a dict literal')
    keys = [k.value for k in table.keys]                  # type: ignore[union-attr]
    site = f'{EXPR}:{table.lineno} op_string_to_function'
    rep.check(set(keys) == used and len(keys) == len(set(keys)), 'C12.TABLE', 'keys = grammar strings',
              f'table-only {sorted(set(keys) - used)}, grammar-only {sorted(used - set(keys))}', site)
    # operator imports
    imports = {}
    for st in repo.mod(EXPR).body:
        if isinstance(st, ast.ImportFrom) and st.module == 'operator':
            for a in st.names:
                imports[a.asname or a.name] = a.name
    shadowed = {n for n in imports if any(isinstance(st, (ast.FunctionDef, ast.Assign)) and (getattr(st, 'name', None) == n or
                any(isinstance(t, ast.Name) and t.id == n for t in getattr(st, 'targets', []))) for st in repo.mod(EXPR).body)}
    for k, v in zip(table.keys, table.values):
        op = k.value          # type: ignore[union-attr]
        if op in REF_OPERATOR_IMPORTS:
            ok = isinstance(v, ast.Name) and imports.get(v.id) == REF_OPERATOR_IMPORTS[op] and v.id not in shadowed
            rep.check(ok, 'C12.TABLE', f'entry {op}', f'{norm(v)} (operator.{imports.get(norm(v))})', site,
                      expected=f'operator.{REF_OPERATOR_IMPORTS[op]}')
        elif op == '**':
            pw = repo.func(EXPR, '_pow')
            from ..pyfacts import resolve_names as _rn
            rets = [norm(_rn(pw, r.value)) for r in ast.walk(pw) if isinstance(r, ast.Return) and r.value is not None]     # a named power reads as the power
            params = [a.arg for a in pw.args.args]
            ok = isinstance(v, ast.Name) and v.id == '_pow' and len(params) == 2 and rets in (
                [f'int({params[0]} ** {params[1]})'], [f'{params[0]} ** {params[1]}'])
            rep.check(ok, 'C12.TABLE', 'entry **', f'{norm(v)} returns {rets}', site, expected='base ** exp (non-negative exponent)')
            # ... and refuses exactly the negative exponents (x ** 0 is 1, x ** -1 is not an integer)
            from ..excflow import refusal_tests
            gs_ = [e_ for r_, e_ in refusal_tests(pw)]
            badp = []
            if not gs_:
                badp.append('no refusal found')
            else:
                for ev_ in (-2, -1, 0, 1, 2):
                    try:
                        got_ = any(bool(eval_int_expr(t_, {params[0]: 3, params[1]: ev_})) for t_ in gs_)
                    except AnalysisError as ex_:
                        badp.append(str(ex_))
                        break
                    if got_ != (ev_ < 0):
                        badp.append(f'exponent {ev_}: refused={got_}')
            rep.check(not badp, 'C12.TABLE', 'entry **:guard', badp[0] if badp else 'refused iff the exponent is negative', site, expected='exp < 0')
        elif op in REF_LAMBDAS:
            ar, meanings = REF_LAMBDAS[op]
            v = _entry_as_lambda(repo, v, imports, shadowed)
            ok = isinstance(v, ast.Lambda) and len(v.args.args) == ar and _lambda_meaning(v) in meanings
            rep.check(ok, 'C12.TABLE', f'entry {op}', f'{norm(v)} -> {_lambda_meaning(v) if isinstance(v, ast.Lambda) else "?"}', site,
                      expected=f'arity {ar}, meaning {sorted(meanings)[0]}')
        else:
            rep.fail('C12.TABLE', f'entry {op}', 'operator without a reference meaning', site)


def _unbounded_decimal_decoder(repo: Repo, fname: str) -> Optional[str]:
    """None when the module-level function `fname(p)` is int(p) without the digit limit: `try: return int(p)` with a ValueError
    handler that rebuilds the value from chunks of K <= 640 digits (the smallest limit python can be configured with), most
    significant first: value = value * 10 ** len(chunk) + int(chunk) over range(0, len(p), K). Otherwise the reason."""
    if not repo.has_func(PARSER, fname):
        return f'{fname} is not a function of the parser module'
    from ..pyfacts import normalize_counting_whiles, resolve_names
    from ..pyfacts import inline_module_constants as _imc
    fn = normalize_counting_whiles(_imc(repo, PARSER, repo.func(PARSER, fname)))          # `i = 0; while i < n: ..; i += K` reads as range(0, n, K); a module-level chunk width as its literal
    ps = [a.arg for a in fn.args.args]
    body = [st for st in fn.body if not (isinstance(st, ast.Expr) and isinstance(st.value, ast.Constant))]
    if len(ps) != 1 or len(body) != 1 or not isinstance(body[0], ast.Try):
        return 'not `try: return int(p)` with a fallback'
    p_, tr = ps[0], body[0]
    if [norm(x) for x in tr.body] != [f'return int({p_})'] or len(tr.handlers) != 1 or norm(tr.handlers[0].type or ast.Name(id='*')) != 'ValueError' \
            or tr.orelse or tr.finalbody:
        return 'the fast path is not `return int(p)` guarded by `except ValueError`'
    hb = tr.handlers[0].body
    loops = [x for x in hb if isinstance(x, ast.For)]
    if len(loops) != 1 or not isinstance(loops[0].target, ast.Name):
        return 'the fallback is not one loop over chunks'
    lp = loops[0]
    iv = lp.target.id
    it = resolve_names(fn, lp.iter)                 # a named chunk width reads as its literal
    if not (isinstance(it, ast.Call) and dotted(it.func) == 'range' and len(it.args) == 3 and norm(it.args[0]) == '0' and norm(it.args[1]) == f'len({p_})'
            and isinstance(it.args[2], ast.Constant) and isinstance(it.args[2].value, int) and 0 < it.args[2].value <= 640):
        return 'the chunk loop is not range(0, len(p), K) with a literal 0 < K <= 640'
    K = it.args[2].value
    ups = [x for x in lp.body if isinstance(x, (ast.Assign, ast.AugAssign))]
    acc = [x for x in ups if isinstance(x, ast.Assign) and isinstance(x.targets[0], ast.Name) and any(
        isinstance(y, ast.Name) and y.id == x.targets[0].id for y in ast.walk(x.value))]
    if len(acc) != 1:
        return 'no single accumulator update in the chunk loop'
    v = acc[0].targets[0].id            # type: ignore[union-attr]
    rhs = cn(resolve_names(fn, acc[0].value, allow_calls=True))
    chunk = f'{p_}[{iv}:{iv} + {K}]'
    want_rhs = {cn(ast.parse(t, mode='eval').body) for t in (f'{v} * 10 ** len({chunk}) + int({chunk})', f'int({chunk}) + {v} * 10 ** len({chunk})',
                                                             f'10 ** len({chunk}) * {v} + int({chunk})')}
    if rhs not in want_rhs:
        return f'accumulator update `{rhs}` is not value * 10 ** len(chunk) + int(chunk) with chunk = {chunk}'
    init = [norm(x) for x in hb if isinstance(x, ast.Assign) and norm(x.targets[0]) == v]
    rets = [norm(x) for x in hb if isinstance(x, ast.Return)]
    if init != [f'{v} = 0'] or rets != [f'return {v}']:
        return f'the accumulator does not start at 0 / is not what is returned ({init}, {rets})'
    return None


def rule_one_table(rep: Report, repo: Repo) -> None:
    rep.rule('C12.ONE-TABLE', 'the three evaluation paths (parse-time folding, partial evaluation, final evaluation) all apply '
             'op_string_to_function[op] to the operands in order and never special-case an operator, so the stage at which '
             'a sub-expression is folded cannot change its value', 3)
    want = {
        'get_minimized_expr': {'op_string_to_function[op](*(int(_x) for _x in params))'},
        'Expr.eval_new': {'op_string_to_function[op](*(_x.value for _x in evaluated_args))'},
        'Expr.exact_eval': {'op_string_to_function[op](*(_x.exact_eval(labels) for _x in args))'},
    }

    def single_def(fn: ast.AST, name: str) -> Optional[ast.expr]:
        vals = [n.value for n in ast.walk(fn) if isinstance(n, ast.Assign) and len(n.targets) == 1 and isinstance(n.targets[0], ast.Name)
                and n.targets[0].id == name]
        stores = [n for n in ast.walk(fn) if isinstance(n, ast.Name) and n.id == name and isinstance(n.ctx, ast.Store)]
        return vals[0] if len(vals) == 1 and len(stores) == 1 else None

    def through(fn: ast.AST, e: ast.expr) -> ast.expr:
        for _ in range(3):
            if isinstance(e, ast.Name):
                d = single_def(fn, e.id)
                if d is None:
                    break
                e = d
        return e

    def operand_stream(fn: ast.AST, e: ast.expr) -> Optional[str]:
        """`(ELT for v in SEQ)`, `[ELT for v in SEQ]`, `map(f, SEQ)`, or a local bound once to one of those -> 'ELT[_x] for _x in SEQ'"""
        e = through(fn, e)
        if isinstance(e, (ast.GeneratorExp, ast.ListComp)) and len(e.generators) == 1 and not e.generators[0].ifs \
                and isinstance(e.generators[0].target, ast.Name):
            v = e.generators[0].target.id

            class R(ast.NodeTransformer):
                def visit_Name(self, node: ast.Name) -> ast.AST:
                    return ast.Name(id='_x', ctx=node.ctx) if node.id == v else node
            from ..pyfacts import clone
            return f'{norm(R().visit(clone(e.elt)))} for _x in {norm(e.generators[0].iter)}'
        if isinstance(e, ast.Call) and dotted(e.func) == 'map' and len(e.args) == 2:
            return f'{norm(e.args[0])}(_x) for _x in {norm(e.args[1])}'
        return None

    for q, forms in want.items():
        fn = repo.func(EXPR, q)
        cs = []
        for c in calls(fn):
            f_ = through(fn, c.func)
            if isinstance(f_, ast.Subscript) and norm(f_.value) == 'op_string_to_function':
                if len(c.args) == 1 and isinstance(c.args[0], ast.Starred) and not c.keywords:
                    st = operand_stream(fn, c.args[0].value)
                    cs.append(f'{norm(f_)}(*({st}))' if st else norm(c))
                else:
                    cs.append(norm(c))
        special = [norm(n) for n in ast.walk(fn) if isinstance(n, ast.Compare) and any(
            isinstance(x, ast.Name) and x.id == 'op' for x in [n.left] + n.comparators)]
        order_ok = True
        if q == 'Expr.eval_new':
            # evaluated_args is appended in iteration order of args
            order_ok = any(isinstance(n, ast.For) and norm(n.iter) == 'args' and any(
                norm(s) == 'evaluated_args.append(evaluated_arg)' for s in ast.walk(n) if isinstance(s, ast.Call)) for n in ast.walk(fn))
        rep.check(len(cs) == 1 and cs[0] in forms and not special and order_ok, 'C12.ONE-TABLE', q,
                  f'calls {cs}; operator special-cases {special}', f'{EXPR}:{fn.lineno} {q}', expected=sorted(forms)[0])


def rule_literals(rep: Report, repo: Repo) -> None:
    rep.rule('C12.LITERALS', 'NUMBER dispatches prefix -> base exactly over the alternatives of number_re; the escape table equals '
             'the reference C escapes and its keys are the escapes the char regex admits; \\xHH takes two hex digits; STRING '
             'packs character i at bits 8i (little-endian); the char decoder returns only positive lengths', 8)
    consts = {n: repo.const(PARSER, n) for n in ('number_re', 'string_re', 'escape_chars')}          # the two token patterns and the escape alphabet: how they are assembled from parts is free
    # the token regexes are compared as LANGUAGES with the reference ones (bin | hex | char literal | dec; "(string char)*"): what each
    # matches at the start of every string of up to 4 symbols over an alphabet that touches every class boundary - however the classes,
    # groups and alternatives are spelled (\x20 or a blank, {2} or the class twice, capturing or not, built by join)
    import itertools as _it
    REF_ESC = '\\\\[' + re.escape(''.join(REF_ESCAPES)) + ']|\\\\[xX][0-9a-fA-F]{2}'
    REF_CHAR = '[\\x20-\\x5B\\x5D-\\x7E]|' + REF_ESC
    REF_NUMBER = f"(0[bB][01]+)|(0[xX][0-9a-fA-F]+)|('({REF_CHAR})')|([0-9]+)"
    REF_STRING = '"([\\x20\\x21\\x23-\\x5B\\x5D-\\x7E]|' + REF_ESC + ')*"'
    alphabet = ['0', '1', '2', '9', 'b', 'B', 'x', 'X', 'a', 'f', 'F', 'g', "'", '"', '\\', ' ', '~', '\x7f', '\x1f', '[', ']', 'n', '?', '!', '#']

    def language_diff(got: str, ref: str) -> Optional[str]:
        try:
            rg, rr = re.compile(got), re.compile(ref)
        except re.error as ex:
            return f'does not compile: {ex}'
        for L in range(1, 5):
            for tup in _it.product(alphabet, repeat=L):
                t = ''.join(tup)
                mg, mr = rg.match(t), rr.match(t)
                if (mg.group(0) if mg else None) != (mr.group(0) if mr else None):
                    return f'on {t!r}: matches {mg.group(0) if mg else None!r}, the reference {mr.group(0) if mr else None!r}'
        return None
    dn = language_diff(consts['number_re'], REF_NUMBER)
    rep.check(dn is None, 'C12.LITERALS', 'NUMBER token language', dn or 'equal to bin | hex | char literal | dec (in this order) on every string of up to 4 symbols',
              PARSER, expected='bin | hex | char | dec, in this order')
    ds = language_diff(consts['string_re'], REF_STRING)
    rep.check(ds is None, 'C12.LITERALS', 'STRING token language', ds or 'equal to "(printable except \\ and " | escape)*" on every string of up to 4 symbols', PARSER)
    esc = repo.const(PARSER, 'char_escape_dict')
    rep.check(esc == REF_ESCAPES, 'C12.LITERALS', 'escape table', str({k: v for k, v in esc.items() if REF_ESCAPES.get(k) != v}) or 'equal',
              PARSER, expected='the 13 C escapes')
    rep.check(consts['escape_chars'] == ''.join(esc), 'C12.LITERALS', 'escape characters', consts['escape_chars'], PARSER, expected='the keys of the escape table')
    # the string token ends at the FIRST unescaped double quote: no alternative of its body may match a bare `"` (read off the regex
    # syntax tree: the first element of every body alternative is a class / literal that excludes 0x22, or a backslash) - otherwise two
    # literals on one line lex as one (`"a" + "b"`), and a quote inside a trailing comment is swallowed
    import re._parser as _rp          # type: ignore[import-not-found]
    def _first_sets(items: Any) -> List[Set[int]]:
        out: List[Set[int]] = []
        seq = list(items)
        if not seq:
            return [set()]
        op, av = seq[0]
        name = str(op)
        if name == 'LITERAL':
            return [{av}]
        if name == 'IN':
            cs: Set[int] = set()
            neg = False
            for o2, a2 in av:
                if str(o2) == 'NEGATE':
                    neg = True
                elif str(o2) == 'LITERAL':
                    cs.add(a2)
                elif str(o2) == 'RANGE':
                    cs |= set(range(a2[0], a2[1] + 1))
                else:
                    cs |= set(range(256))           # a category: treat as anything
            return [set(range(256)) - cs if neg else cs]
        if name == 'SUBPATTERN':
            return _first_sets(av[3])
        if name == 'BRANCH':
            for alt in av[1]:
                out += _first_sets(alt)
            return out
        return [set(range(256))]
    str_ok, str_txt = False, 'not "(<alternatives>)*"'
    try:
        tree = list(_rp.parse(consts['string_re']))
        if len(tree) == 3 and str(tree[0][0]) == 'LITERAL' and tree[0][1] == 0x22 and str(tree[2][0]) == 'LITERAL' and tree[2][1] == 0x22 \
                and str(tree[1][0]) in ('MAX_REPEAT',) and tree[1][1][0] == 0:
            firsts = _first_sets(tree[1][1][2])
            bare = [sorted(f)[:3] for f in firsts if 0x22 in f]
            str_ok = bool(firsts) and not bare
            str_txt = f'{len(firsts)} body alternatives; ' + ('none starts with a bare double quote' if not bare else 'an alternative matches a bare double quote')
    except Exception as ex:          # noqa: BLE001
        str_txt = f'regex not parsed: {ex}'
    rep.check(str_ok, 'C12.LITERALS', 'STRING token ends at the first unescaped quote', str_txt, PARSER,
              expected='"( printable except \\ and " | escape )*"')
    num = repo.func(PARSER, 'FJLexer.NUMBER')
    # every path of NUMBER (forward substitution; branch order / nesting / negation do not matter): the conditions that hold on the
    # path select the decoder - a leading quote -> the char decoder, second char x/X -> base 16, b/B -> base 2, otherwise base 10
    outs = method_outcomes(repo, PARSER, 'FJLexer', 'NUMBER')
    bad = []
    kinds = set()
    for o in outs:
        c = set(o.conds)
        if '"\'" == t.value[0]' in c:
            want, kind = 't.value = get_char_value_and_length(t.value[1:-1])[0]', 'char'
        elif "t.value[1] in 'xX'" in c:
            want, kind = 't.value = int(t.value, 16)', 'hex'
        elif "t.value[1] in 'bB'" in c:
            want, kind = 't.value = int(t.value, 2)', 'bin'
        else:
            want, kind = 't.value = int(t.value)', 'dec'
            # python's int(str) refuses more than 4300 decimal digits (ValueError): plain int() decodes a decimal literal only where
            # the token is known to be one character; a longer token goes through a decoder without that limit (finding F16)
            if 'len(t.value) < 2' not in c:
                m_ = re.fullmatch(r't\.value = (\w+)\(t\.value\)', o.effects[0]) if len(o.effects) == 1 else None
                why = _unbounded_decimal_decoder(repo, m_.group(1)) if m_ and m_.group(1) != 'int' else 'plain int(): limited to 4300 digits'
                if why is None:
                    want = o.effects[0]
                else:
                    bad.append(f'decimal literal decoder {o.effects}: {why}')
        kinds.add(kind)
        if o.effects != [want] or o.result != ('return', 't'):
            bad.append(f'{sorted(c)} -> {o.effects}')
        # a path that is taken for the decimal decoder must have excluded the three prefixes or be too short to have one
        if kind == 'dec' and not ({'"\'" != t.value[0]', "t.value[1] not in 'xX'", "t.value[1] not in 'bB'"} <= c or 'len(t.value) < 2' in c):
            bad.append(f'decimal path without excluding the prefixes: {sorted(c)}')
    rep.check(not bad and kinds == {'char', 'hex', 'bin', 'dec'}, 'C12.LITERALS', 'NUMBER dispatch',
              bad[0] if bad else f'{len(outs)} paths: {sorted(kinds)}', f'{PARSER}:{num.lineno}',
              expected="char -> decoder; 0x -> base 16; 0b -> base 2; else base 10")
    dec = repo.func(PARSER, 'get_char_value_and_length')
    # every path of the decoder by forward substitution (guard order / nesting / named temporaries do not matter). The escape
    # table is a module constant without None values (checked above), so `T.get(k) is not None` reads as `k in T` and `T.get(k)`
    # as `T[k]`.
    from ..pysubst import block_outcomes

    def table_reads(text: str) -> str:
        t = ast.parse(text, mode='eval').body

        class G(ast.NodeTransformer):
            def visit_Compare(self, node: ast.Compare) -> ast.AST:
                self.generic_visit(node)
                if len(node.ops) == 1 and isinstance(node.ops[0], (ast.IsNot, ast.Is)) and isinstance(node.comparators[0], ast.Constant) \
                        and node.comparators[0].value is None and isinstance(node.left, ast.Subscript) and norm(node.left.value) == 'char_escape_dict':
                    return ast.Compare(left=node.left.slice, ops=[ast.In() if isinstance(node.ops[0], ast.IsNot) else ast.NotIn()],
                                       comparators=[node.left.value])
                return node

            def visit_Call(self, node: ast.Call) -> ast.AST:
                self.generic_visit(node)
                if dotted(node.func) == 'char_escape_dict.get' and len(node.args) == 1 and not node.keywords:
                    return ast.Subscript(value=ast.Name(id='char_escape_dict', ctx=ast.Load()), slice=node.args[0], ctx=ast.Load())
                return node
        # .get() first (inner), then the None comparison on the resulting subscript
        t2 = G().visit(t)
        return cn(ast.fix_missing_locations(t2)) if isinstance(t2, (ast.Compare, ast.BoolOp, ast.UnaryOp)) else norm(ast.fix_missing_locations(t2))
    rets = sorted((tuple(sorted(table_reads(c) for c in o.conds)), table_reads(o.result[1] or 'None') if o.result[0] == 'return' else o.result[0])
                  for o in block_outcomes(dec.body, {}, 'get_char_value_and_length'))
    want_rets = sorted([((cc("s[0] != '\\\\'"),), '(ord(s[0]), 1)'),
                        (tuple(sorted((cc("s[0] == '\\\\'"), cc('s[1] in char_escape_dict')))), '(char_escape_dict[s[1]], 2)'),
                        (tuple(sorted((cc("s[0] == '\\\\'"), cc('s[1] not in char_escape_dict')))), '(int(s[2:4], 16), 4)')])
    rep.check(rets == want_rets, 'C12.LITERALS', 'char decoder', str(rets),
              f'{PARSER}:{dec.lineno}', expected='plain -> (ord, 1); escape -> (table, 2); \\xHH -> (hex, 4)')
    st = repo.func(PARSER, 'FJLexer.STRING')
    packs = [norm(n.value) for n in ast.walk(st) if isinstance(n, ast.Assign) and norm(n.targets[0]) == 't.value']
    # the packing fold over enumerate(chars), as a sum(...) generator or as an explicit accumulation loop: the summand is folded
    # for index 0..5 and byte values against value << 8*index
    fold = None             # (index name, value name, summand)
    st = normalize_indexed_loops(st)                 # enumerate(chars) reads as range(len(chars)) with chars[i]
    packs = [norm(n.value) for n in ast.walk(st) if isinstance(n, ast.Assign) and norm(n.targets[0]) == 't.value']

    class _Val(ast.NodeTransformer):                 # chars[i] -> the symbol `__v`
        def __init__(self, i: str):
            self.i = i

        def visit_Subscript(self, node: ast.Subscript) -> ast.AST:
            if norm(node.value) == 'chars' and norm(node.slice) == self.i:
                return ast.Name(id='__v', ctx=ast.Load())
            return self.generic_visit(node)
    for n in ast.walk(st):
        if isinstance(n, ast.Call) and dotted(n.func) == 'sum' and len(n.args) == 1 and isinstance(n.args[0], (ast.GeneratorExp, ast.ListComp)):
            g = n.args[0].generators
            if len(g) == 1 and norm(g[0].iter) == 'range(len(chars))' and isinstance(g[0].target, ast.Name) and not g[0].ifs:
                fold = (g[0].target.id, '__v', _Val(g[0].target.id).visit(clone(n.args[0].elt)), 'sum')
        if isinstance(n, ast.For) and norm(n.iter) == 'range(len(chars))' and isinstance(n.target, ast.Name) and len(n.body) == 1:
            b0 = n.body[0]
            acc = None
            if isinstance(b0, ast.AugAssign) and isinstance(b0.op, (ast.Add, ast.BitOr)) and isinstance(b0.target, ast.Name):
                acc, summand = b0.target.id, b0.value
            elif isinstance(b0, ast.Assign) and isinstance(b0.targets[0], ast.Name) and isinstance(b0.value, ast.BinOp) \
                    and isinstance(b0.value.op, (ast.Add, ast.BitOr)) and norm(b0.value.left) == b0.targets[0].id:
                acc, summand = b0.targets[0].id, b0.value.right
            if acc is not None:
                init = [norm(x.value) for x in st.body if isinstance(x, ast.Assign) and norm(x.targets[0]) == acc]
                if init == ['0'] and packs == [acc]:
                    fold = (n.target.id, '__v', _Val(n.target.id).visit(clone(summand)), 'loop')
    in_loop = False
    if fold is None:
        # the same fold kept by hand inside the scanning loop: `acc += F(val, k); k += 1` with acc = 0, k = 0 before the loop, val the
        # character decoded in this iteration, and t.value = acc after it
        for lp in [x for x in ast.walk(st) if isinstance(x, ast.While)]:
            dec_names = [t_.elts[0].id for b in lp.body if isinstance(b, ast.Assign) and len(b.targets) == 1 and isinstance(b.value, ast.Call)
                         and dotted(b.value.func) == 'get_char_value_and_length' for t_ in b.targets
                         if isinstance(t_, ast.Tuple) and len(t_.elts) == 2 and isinstance(t_.elts[0], ast.Name)]
            accs = [(j, b) for j, b in enumerate(lp.body) if isinstance(b, ast.AugAssign) and isinstance(b.op, (ast.Add, ast.BitOr)) and isinstance(b.target, ast.Name)
                    and any(isinstance(x, ast.Name) and x.id in dec_names for x in ast.walk(b.value))]
            if len(dec_names) != 1 or len(accs) != 1:
                continue
            j_acc, b_acc = accs[0]
            ks = [(j, b) for j, b in enumerate(lp.body) if isinstance(b, ast.AugAssign) and isinstance(b.op, ast.Add) and isinstance(b.target, ast.Name)
                  and isinstance(b.value, ast.Constant) and b.value.value == 1 and any(isinstance(x, ast.Name) and x.id == b.target.id for x in ast.walk(b_acc.value))]
            if len(ks) != 1:
                continue
            j_k, b_k = ks[0]
            acc, k = b_acc.target.id, b_k.target.id
            def _inits(nm: str) -> List[str]:
                return [norm(x.value) for x in st.body if isinstance(x, ast.Assign) and norm(x.targets[0]) == nm]
            stores_k = [x for x in ast.walk(st) if isinstance(x, ast.Name) and x.id == k and isinstance(x.ctx, ast.Store)]
            stores_a = [x for x in ast.walk(st) if isinstance(x, ast.Name) and x.id == acc and isinstance(x.ctx, ast.Store)]
            if _inits(acc) == ['0'] and _inits(k) == ['0'] and len(stores_k) == 2 and len(stores_a) == 2 and packs == [acc] and j_acc < j_k \
                    and not any(isinstance(x, (ast.Continue, ast.Break)) for x in ast.walk(lp)):
                fold = (k, dec_names[0], b_acc.value, 'in-loop')
                in_loop = True
    wrong = []
    if fold is not None:
        for i in range(6):
            for v in (0, 1, 0x41, 0xFF):
                got = eval_int_expr(fold[2], {fold[0]: i, fold[1]: v})
                if got != v << (8 * i):
                    wrong.append(f'index {i}, value {v:#x}: {got:#x}')
    rep.check(fold is not None and not wrong, 'C12.LITERALS', 'STRING packing', f'{fold[3] if fold else packs}: ' + (wrong[0] if wrong else 'value << 8*index'),
              f'{PARSER}:{st.lineno}', expected='sum(val << (8*i)) over characters in order')
    app = in_loop or any(isinstance(c, ast.Call) and norm(c) == 'chars.append(val)' for c in ast.walk(st))
    rep.check(app and "s = t.value[1:-1]" in [norm(n) for n in ast.walk(st) if isinstance(n, ast.Assign)], 'C12.LITERALS', 'STRING scan',
              'characters decoded left to right from the text between the quotes', f'{PARSER}:{st.lineno}')


def check(rep: Report, repo: Optional[Repo] = None) -> None:
    repo = repo or Repo()
    rules = grammar_rules(repo)
    rep.units = dict(files=[PARSER, EXPR], grammar_rules=len(rules), expr_rules=sum(1 for t, f in rules if f.name == 'expr_'))
    rule_prec(rep, repo)
    used = rule_rule_op(rep, repo)
    rule_table(rep, repo, used)
    rule_one_table(rep, repo)
    rule_literals(rep, repo)
    rep.assumptions.append('the reference precedence/associativity table is the one confirmed from the pinned tree and '
                           'math_operators.fj; the external language specification page is not available offline')
    rep.not_decided.append('values for all expression trees (value-level)')


MANIFEST = dict(
    technique='grammar/operator table agreement against a reference partition; lambda normalisation',
    level_text='Static, structural: the precedence declaration equals the 13-level reference partition; every grammar rule passes '
               'its own operator string with operands in order; the operator table has exactly those keys with the reference '
               'meaning and arity (no masking); the three evaluation paths share the one table without special cases; literal '
               'decoders agree with the token regexes and the C escape table.',
    level_note='Trusted: CPython ast; sly implements LALR precedence declarations as documented; the reference tables in rules/c12.py.',
    design_ref='DESIGN.md section 4 C12',
)
