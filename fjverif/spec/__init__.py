"""Reference tables (the oracles). Semantic facts, never source fragments.
Each entry: the fact, one line of reason, and where it was confirmed from."""
