"""The FlipJump step grammar and its guards (properties C01, C07, C15, C18).

Confirmed from: the C01 property statement ("per op, fetch the flip word, emit an output bit if it
addresses the two output bits, consume one input bit if the op covers the input bit, flip, and only
then fetch the jump word and jump"), the repository README, and fjm_run._run_featured, which the
project designates as the reference loop.

Symbols: w = memory width, L = log2(w)  (so  #w = w.bit_length() = L + 1).
"""

# event -> states from which it may occur; after the event the state IS the event.
STEP_ALLOWED = {
    'RECORD_IP':   {'START'},                                 # last-ops list records the ip first
    'PAUSE':       {'START', 'RECORD_IP', 'PAUSE'},                  # debugger pauses before anything is fetched
    'FETCH_FLIP':  {'START', 'RECORD_IP', 'PAUSE'},
    'OUTPUT':      {'FETCH_FLIP'},                            # output is decided by the flip word
    'INPUT':       {'FETCH_FLIP', 'OUTPUT'},                  # input after output
    'INPUT_STORE': {'INPUT'},                                 # the input bit is stored before the flip
    # where the flip is a read-modify-write written out (the python fast loop): the word is read after the op's IO and input store -
    # an input bit stored into that very word, and an output that must precede a faulting flip, are then part of what is read
    'READ_TARGET': {'FETCH_FLIP', 'OUTPUT', 'INPUT_STORE'},
    'FLIP':        {'FETCH_FLIP', 'OUTPUT', 'INPUT_STORE', 'READ_TARGET'},
    'FETCH_JUMP':  {'FLIP'},                                  # only after the flip (self-modifying ops)
    'COUNT':       {'FETCH_JUMP'},                            # op counted after the jump-word fetch
    'LOOPTEST':    {'COUNT'},                                 # self-loop halt test first ...
    'NULLTEST':    {'LOOPTEST'},                              # ... then the jump-below-2w test
    'JUMP':        {'NULLTEST'},
}
STEP_HEAD_STATES = {'JUMP'}       # the only state in which the loop head may be re-entered

# guards as integer intervals in (w, L); [lo, hi] inclusive
OUTPUT_F = ({'w': 2, '': 0}, {'w': 2, '': 1})                 # f in {2w, 2w+1}
OUTPUT_BIT_ONE = {'w': 2, '': 1}                              # emitted bit = (f == 2w+1)
INPUT_ADDR = {'w': 3, 'L': 1, '': 1}                          # in = 3w + #w = 3w + L + 1
INPUT_IP = ({'w': 1, 'L': 1, '': 2}, {'w': 3, 'L': 1, '': 1})  # ip in (in-2w, in]
SELF_FLIP_F = ({'ip': 1, '': 0}, {'ip': 1, 'w': 2, '': -1})   # ip <= f < ip+2w  (op flips itself: no halt)
NULL_J_HI = {'w': 2, '': -1}                                  # j < 2w

WIDTHS = {8: 3, 16: 4, 32: 5, 64: 6}                          # supported widths and their log2

# C termination codes <-> TerminationCause member
TERM_MAP = {'TERM_LOOPING': 'Looping', 'TERM_EOF': 'EOF', 'TERM_NULL_IP': 'NullIP',
            'TERM_MEMORY_ERROR': 'RuntimeMemoryError'}

# role tables (DESIGN.md appendix B1): role -> variable name in each step implementation
ROLES_PY = {
    '_run_featured': dict(ip='ip', f='flip_address', j='jump_address'),
    '_run_fast': dict(ip='ip', f='flip_address', j='jump_address', ops='ops'),
}
ROLES_C = {
    'run_measured_loop': dict(ip='ip', f='f', j='j', ops='ops'),
    'run_flat_loop_impl': dict(ip='ip', f='f', j='j', ops='ops'),
    'run_paged_loop_impl': dict(ip='ip', f='f', j='j', ops='ops'),
}
