"""pyfold: fold a small function of /repo on concrete arguments by walking its syntax tree (nothing of /repo is imported or executed)."""
from __future__ import annotations

import ast
from typing import Any, Dict, List, Optional

from .pyfacts import Repo, dotted, norm


class Opaque:
    """a value the folding does not look into (the memory object, a message)"""
    def __init__(self, what: str):
        self.what = what


class _Continue(Exception):
    pass


class _Stop(Exception):
    def __init__(self, value: Any):
        self.value = value


class CantFold(Exception):
    pass


def _too_long(it: Any) -> bool:
    try:
        return len(it) > 4096
    except OverflowError:
        return True


def fold_fn(repo: Repo, rel: str, fn: ast.FunctionDef, args: List[Any], on_call: Any, depth: int = 0, env: Optional[Dict[str, Any]] = None) -> Any:
    """Fold a small straight-line / branching function on concrete arguments, reading only its syntax tree: names, tuples, integer
    arithmetic, comparisons, subscripts, if / return, tuple unpacking, calls of module-level functions of the same file (folded the
    same way), range / len / list comprehensions over a range. `on_call(dotted name, argument values)` sees every other call and may
    answer it (anything but NotImplemented) - this is how the reads of the memory are collected. Unfoldable -> CantFold."""
    if depth > 6:
        raise CantFold('call depth')
    env = {} if env is None else env          # a caller's dict: pre-set module-level names, and a view of the locals for on_call
    names = [a.arg for a in fn.args.args]
    for n_, v_ in zip(names, args):
        env[n_] = v_
    mod_fns = {d.name: d for d in repo.mod(rel).body if isinstance(d, ast.FunctionDef)}

    def ev(e: ast.expr, loc: Dict[str, Any]) -> Any:
        if isinstance(e, ast.Constant):
            return e.value
        if isinstance(e, ast.Name):
            if e.id in loc:
                return loc[e.id]
            raise CantFold(f'name {e.id}')
        if isinstance(e, ast.Attribute):
            k = norm(e)
            if k in loc:
                return loc[k]
            base = ev(e.value, loc)
            if isinstance(base, dict) and e.attr in base:
                return base[e.attr]
            raise CantFold(f'attribute {k}')
        if isinstance(e, ast.Tuple) or isinstance(e, ast.List):
            vals = [ev(x, loc) for x in e.elts]
            return tuple(vals) if isinstance(e, ast.Tuple) else vals
        if isinstance(e, ast.BinOp):
            a, b = ev(e.left, loc), ev(e.right, loc)
            if not (isinstance(a, int) and isinstance(b, int)):
                raise CantFold('non-integer arithmetic')
            ops = {ast.Add: lambda: a + b, ast.Sub: lambda: a - b, ast.Mult: lambda: a * b, ast.FloorDiv: lambda: a // b, ast.Mod: lambda: a % b,
                   ast.LShift: lambda: a << b if 0 <= b < 4096 else (_ for _ in ()).throw(CantFold('shift')), ast.RShift: lambda: a >> b,
                   ast.BitAnd: lambda: a & b, ast.BitOr: lambda: a | b, ast.BitXor: lambda: a ^ b}
            if type(e.op) not in ops:
                raise CantFold('operator')
            try:
                return ops[type(e.op)]()
            except (ArithmeticError, ValueError) as ex:
                raise CantFold(str(ex))
        if isinstance(e, ast.UnaryOp):
            v = ev(e.operand, loc)
            if isinstance(e.op, ast.Not):
                return not v
            if isinstance(e.op, ast.USub) and isinstance(v, int):
                return -v
            raise CantFold('unary')
        if isinstance(e, ast.BoolOp):
            r: Any = isinstance(e.op, ast.And)
            for x in e.values:
                r = ev(x, loc)
                if bool(r) != isinstance(e.op, ast.And):
                    return r
            return r
        if isinstance(e, ast.Compare):
            left = ev(e.left, loc)
            for op, c in zip(e.ops, e.comparators):
                right = ev(c, loc)
                if isinstance(op, (ast.Is, ast.IsNot)):
                    ok = (left is right) == isinstance(op, ast.Is)
                elif isinstance(left, Opaque) or isinstance(right, Opaque):
                    raise CantFold('opaque comparison')
                else:
                    try:
                        ok = {ast.Eq: lambda: left == right, ast.NotEq: lambda: left != right, ast.Lt: lambda: left < right, ast.LtE: lambda: left <= right,
                              ast.Gt: lambda: left > right, ast.GtE: lambda: left >= right, ast.In: lambda: left in right, ast.NotIn: lambda: left not in right}[type(op)]()
                    except (TypeError, KeyError):
                        raise CantFold('comparison')
                if not ok:
                    return False
                left = right
            return True
        if isinstance(e, ast.IfExp):
            return ev(e.body if ev(e.test, loc) else e.orelse, loc)
        if isinstance(e, ast.Subscript):
            base = ev(e.value, loc)
            if isinstance(e.slice, ast.Slice):
                i = slice(*(None if x is None else ev(x, loc) for x in (e.slice.lower, e.slice.upper, e.slice.step)))
            else:
                i = ev(e.slice, loc)
            try:
                return base[i]
            except (TypeError, KeyError, IndexError):
                raise CantFold('subscript')
        if isinstance(e, ast.Dict):
            return {ev(k, loc): ev(v, loc) for k, v in zip(e.keys, e.values) if k is not None}
        if isinstance(e, ast.ListComp) and len(e.generators) == 1 and not e.generators[0].ifs and isinstance(e.generators[0].target, ast.Name):
            it = ev(e.generators[0].iter, loc)
            if not isinstance(it, (range, list, tuple)) or _too_long(it):
                raise CantFold('comprehension domain')
            return [ev(e.elt, {**loc, e.generators[0].target.id: x}) for x in it]
        if isinstance(e, ast.JoinedStr):
            return Opaque('text')
        if isinstance(e, ast.Call):
            d = dotted(e.func)
            vals = [ev(a, loc) for a in e.args]
            kws = {k.arg: ev(k.value, loc) for k in e.keywords if k.arg}
            if isinstance(e.func, ast.Attribute) and e.func.attr == 'bit_length' and not vals:
                recv = ev(e.func.value, loc)
                if isinstance(recv, int):
                    return recv.bit_length()
            if d == 'range' and all(isinstance(v, int) for v in vals) and not kws:
                return range(*vals)
            if d == 'enumerate' and vals and isinstance(vals[0], (list, tuple)) and len(vals) <= 2 and set(kws) <= {'start'}:
                start = vals[1] if len(vals) == 2 else kws.get('start', 0)
                if not isinstance(start, int):
                    raise CantFold('enumerate start')
                return list(enumerate(vals[0], start))
            if d == 'len' and len(vals) == 1 and isinstance(vals[0], (list, tuple, range)):
                if _too_long(vals[0]):
                    raise CantFold('length of a huge domain')
                return len(vals[0])
            if d in ('int', 'bool') and len(vals) == 1 and isinstance(vals[0], (int, bool)):
                return int(vals[0]) if d == 'int' else bool(vals[0])
            got = on_call(d, vals, kws)
            if got is not NotImplemented:
                return got
            if d in mod_fns and not kws:
                return fold_fn(repo, rel, mod_fns[d], vals, on_call, depth + 1)
            return Opaque(d)
        raise CantFold(type(e).__name__)

    def bind(t: ast.expr, v: Any) -> None:
        if isinstance(t, ast.Name):
            env[t.id] = v
        elif isinstance(t, (ast.Tuple, ast.List)):
            if isinstance(v, Opaque):
                for x in t.elts:
                    bind(x, Opaque(v.what))
                return
            if not isinstance(v, (tuple, list)) or len(v) != len(t.elts):
                raise CantFold('unpacking')
            for x, y in zip(t.elts, v):
                bind(x, y)
        else:
            raise CantFold('assignment target')

    def run(stmts: List[ast.stmt]) -> None:
        for st in stmts:
            if isinstance(st, ast.Assign):
                v = ev(st.value, env)
                for t in st.targets:
                    bind(t, v)
            elif isinstance(st, ast.AnnAssign):
                if st.value is not None:
                    bind(st.target, ev(st.value, env))
            elif isinstance(st, ast.AugAssign) and isinstance(st.target, ast.Name):
                bind(st.target, ev(ast.BinOp(left=ast.Name(id=st.target.id, ctx=ast.Load()), op=st.op, right=st.value), env))
            elif isinstance(st, ast.If):
                run(st.body if ev(st.test, env) else st.orelse)
            elif isinstance(st, ast.Return):
                raise _Stop(None if st.value is None else ev(st.value, env))
            elif isinstance(st, ast.Expr):
                if not isinstance(st.value, ast.Constant):
                    ev(st.value, env)
            elif isinstance(st, ast.Try):
                run(st.body)
            elif isinstance(st, ast.For) and not st.orelse:
                try:
                    it = ev(st.iter, env)
                    if not isinstance(it, (range, list, tuple)) or _too_long(it):
                        raise CantFold('loop domain')
                    for x in it:
                        bind(st.target, x)
                        try:
                            run(st.body)
                        except _Continue:
                            pass
                except CantFold:
                    # a loop that only computes a value the rule does not look at: what it assigns is unknown from here on
                    if any(isinstance(c, ast.Call) and not (isinstance(c.func, ast.Attribute) and c.func.attr == 'bit_length')
                           for b in st.body for c in ast.walk(b)):
                        raise                   # the loop calls something: skipping it would hide those calls
                    for n in ast.walk(st):
                        if isinstance(n, ast.Name) and isinstance(n.ctx, ast.Store):
                            env[n.id] = Opaque(n.id)
            elif isinstance(st, (ast.Pass, ast.Global, ast.Nonlocal)):
                continue
            elif isinstance(st, ast.Continue):
                raise _Continue()
            else:
                raise CantFold(type(st).__name__)
    try:
        run(fn.body)
    except _Stop as s_:
        return s_.value
    return None
