import sys; sys.path.insert(0, '/repo')
# bit.print_as_digit n, x is documented "prints x[:n] as n ascii-characters ('0's and '1's, lsb first)"
# but it prints x[n-1] first (msb first). The check compares the behaviour with the macro's own doc comment.
import io, contextlib, tempfile, re
from pathlib import Path
import flipjump
from flipjump import assemble, FixedIO
from flipjump.interpreter import fjm_run

stl_file = Path(flipjump.__file__).parent / 'stl' / 'bit' / 'output.fj'
text = stl_file.read_text()
m = re.search(r"//([^\n]*)\n(?:\s*//[^\n]*\n)*\s*def print_as_digit n, x", text)
doc = re.search(r"prints x\[:n\] as n ascii-characters[^\n]*", text).group(0)
doc_lsb_first = 'lsb first' in doc

SRC = '''
stl.startup
  bit.print_as_digit 4, x
  stl.loop
x: bit.vec 4, 0b0011
'''
failed = False
with tempfile.TemporaryDirectory() as d:
    d = Path(d)
    (d / 'p.fj').write_text(SRC)
    for w in (32, 64):
        fjm = d / f'p{w}.fjm'
        with contextlib.redirect_stdout(io.StringIO()):
            assemble([d / 'p.fj'], fjm, memory_width=w, print_time=False)
        dev = FixedIO(b'')
        fjm_run.run(fjm, io_device=dev)
        out = dev.get_output()
        expected = b'1100' if doc_lsb_first else b'0011'
        if out != expected:
            failed = True
            print(f'w={w}: bit.print_as_digit 4, x with x=0b0011 printed {out!r}; its doc comment says '
                  f'"{doc.strip()}" -> expected {expected!r}')
sys.exit(1 if failed else 0)
