import os as _os; _os.makedirs("/tmp/fjverif-triage", exist_ok=True)  # scratch dir; remove after use
import os
from pathlib import Path
from flipjump.fjm.fjm_writer import Writer
from flipjump.fjm.fjm_consts import FJMVersion
from flipjump.interpreter import fjm_run
from flipjump.interpreter.io_devices.FixedIO import FixedIO
w=64
p=Path('/tmp/fjverif-triage/top.fjm')
wr=Writer(p,w,FJMVersion.NormalVersion)
wr.add_simple_segment_with_data(0,[0,2**64-64,0,0])
wr.add_simple_segment_with_data(2**58-2,[0,133])
wr.write_to_file()
for env in ({'FLIPJUMP_NO_NATIVE':'1'},{'FLIPJUMP_NO_FLAT':'1'},{}):
    for k in ('FLIPJUMP_NO_NATIVE','FLIPJUMP_NO_FLAT'): os.environ.pop(k,None)
    os.environ.update(env)
    for prof in (False,True):
        if prof and env!={'FLIPJUMP_NO_NATIVE':'1'}: continue
        try:
            t=fjm_run.run(p,io_device=FixedIO(b''),profile=prof)
            print(env,'featured' if prof else '',t.termination_cause,t.op_counter,t.memory_error_address,t.storage_mode)
        except Exception as e: print(env,type(e).__name__,e, '|', repr(e.__cause__))
