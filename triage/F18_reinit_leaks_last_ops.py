import sys, gc
from flipjump.interpreter import _fjcore
from flipjump.utils.exceptions import IOReadOnEOF
class DeviceFailure(Exception): pass
def failing_write(bit): raise DeviceFailure()
def unexpected_read(): raise AssertionError
memory = _fjcore.Memory(32)
memory.add_segment(0, 16)
memory.set_words(0, [256, 128, 0, 0, 64, 128])
try:
    memory.run(unexpected_read, failing_write, IOReadOnEOF, last_ops_length=4)
except DeviceFailure: pass
held = memory.last_run_last_ops
before = sys.getrefcount(held)
memory.__init__(32)
print('after re-init member is', memory.last_run_last_ops)
del memory; gc.collect()
after = sys.getrefcount(held)
print('refcount', before, '->', after, '(expected drop of 1: the reference the Memory owned)')
sys.exit(0 if before-after==1 else 1)
