import os as _os; _os.makedirs("/tmp/fjverif-triage", exist_ok=True)  # scratch dir; remove after use
import os, sys
from pathlib import Path
from flipjump.fjm.fjm_writer import Writer
from flipjump.fjm.fjm_consts import FJMVersion
from flipjump.interpreter import fjm_run
from flipjump.interpreter.io_devices.FixedIO import FixedIO
w=32
p=Path('/tmp/fjverif-triage/a.fjm')
wr=Writer(p,w,FJMVersion.NormalVersion)
wr.add_simple_segment_with_data(0,[69,160,0,0,0,262144*32])
d=wr.add_data([])
wr.add_segment(262144,16384,d,0)
wr.write_to_file()
for env in ({'FLIPJUMP_NO_NATIVE':'1'},{'FLIPJUMP_NO_FLAT':'1'},{}):
    for k in ('FLIPJUMP_NO_NATIVE','FLIPJUMP_NO_FLAT'): os.environ.pop(k,None)
    os.environ.update(env)
    for lol in (None, 5):
        t=fjm_run.run(p,io_device=FixedIO(b''),last_ops_debugging_list_length=lol)
        print(env,lol,t.termination_cause,t.op_counter,t.memory_error_address,t.storage_mode,list(t.last_ops_addresses) if t.last_ops_addresses is not None else None)
