import os as _os; _os.makedirs("/tmp/fjverif-triage", exist_ok=True)  # scratch dir; remove after use
import traceback
from pathlib import Path
import flipjump
from flipjump import FJMVersion
def asm(src, w=64, v=FJMVersion.NormalVersion, **kw):
    p=Path('/tmp/fjverif-triage/s.fj'); p.write_text(src)
    out=Path('/tmp/fjverif-triage/o.fjm')
    if out.exists(): out.unlink()
    try:
        flipjump.assemble([p], out, memory_width=w, use_stl=False, fjm_version=v, print_time=False, **kw)
        print('OK', repr(src)[:50], out.exists())
    except Exception as e:
        print(type(e).__name__, '|', str(e).splitlines()[0][:110], '| cause:', type(e.__cause__).__name__ if e.__cause__ else None, '| out exists:', out.exists(), '|', repr(src)[:40])
asm(';1/0\n')
asm(';1<<(0-1)\n')
asm('a=1/0\n;a\n')
asm(';0-1\n')
asm('(1<<64);0\n')
asm('(1<<64);0\n', v=FJMVersion.RelativeJumpVersion)
asm(';0-1\n', v=FJMVersion.CompressedVersion)
asm(';x\n x:\n wflip 0-64, 1\n')
asm(';2**(2**40)\n') if False else None
asm('def m { m }\n m\n')
asm('segment 128\n;0\n')
asm(';0\nreserve 0-64\n')
asm(';0\nsegment 0\n;0\n')
asm('rep(0-1, i) m\n def m {;}\n;0')
asm(';"\\x00"\n')
