import sys; sys.path.insert(0, '/repo')
# bit.ascii2hex error, hex, ascii : 'ascii' is an input (only error/hex are outputs), bit.ascii2bin / bit.ascii2dec
# leave it untouched, but ascii2hex does ".inc 3, ascii" on the letter path and never undoes it: for every byte
# 0x40-0x47 / 0x60-0x67 ('A'-'F', 'a'-'f', '@', 'G', '`', 'g') the caller's ascii byte comes back changed
# ('A' -> 'B', 'G' -> '@', ...), so converting the same byte twice gives a different / wrong digit.
import io, contextlib, tempfile
from pathlib import Path
import flipjump
from flipjump import assemble, FixedIO
from flipjump.interpreter import fjm_run

SRC = '''
stl.startup
loop:
  bit.input a
  bit.ascii2hex e, h, a
  bit.print a                 // the ascii byte after the cast
  bit.ascii2hex e, h, a       // cast the very same byte again
  bit.print_as_digit e
  bit.print_hex_uint 4, h, 0
  ;loop
a: bit.vec 8
e: bit.bit
h: bit.vec 4
'''
failed = False
with tempfile.TemporaryDirectory() as d:
    d = Path(d)
    (d / 'p.fj').write_text(SRC)
    for w in (32, 64):
        fjm = d / f'p{w}.fjm'
        with contextlib.redirect_stdout(io.StringIO()):
            assemble([d / 'p.fj'], fjm, memory_width=w, print_time=False)
        inp = bytes(range(256))
        dev = FixedIO(inp)
        fjm_run.run(fjm, io_device=dev)
        out = dev.get_output()
        bad = []
        for i, b in enumerate(inp):
            got = out[3 * i: 3 * i + 3]
            c = chr(b)
            exp = bytes([b]) + (b'0' + ('%X' % int(c, 16)).encode() if c in '0123456789abcdefABCDEF' else b'10')
            if got != exp:
                bad.append((hex(b), got, exp))
        if bad:
            failed = True
            print(f'w={w}: {len(bad)} input bytes are clobbered by bit.ascii2hex, e.g. (byte, got ascii+error+hex, expected):')
            for t in bad[:6] + bad[-2:]:
                print('   ', t)
sys.exit(1 if failed else 0)
