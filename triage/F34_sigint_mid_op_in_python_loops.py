import sys; sys.path.insert(0, '/repo')
"""
C18: an interrupt (SIGINT) that lands in the middle of an op of a pure-python run loop stops the run
between the op's FLIP and its op-count update: the reported op count says n ops, the memory holds the
flips of n+1 ops. (the native engine polls signals between ops and is always consistent.)

part A is fully deterministic: the featured loop with show_trace=True, SIGINT raised while the trace
line of the 6th op's jump is being printed (the user hits Ctrl+C while the trace scrolls).
part B delivers a real timer signal at pseudo-random times to the featured loop (profile=True) and to
the fast loop (a program of unaligned ops), and to the native engine as the control.
exit 1 when a stopped run reports an op count that disagrees with its memory, 0 otherwise.
"""
import io
import os
import random
import signal
import tempfile
from pathlib import Path

import flipjump
from flipjump.fjm.fjm_consts import FJMVersion
from flipjump.fjm.fjm_writer import Writer
from flipjump.interpreter import fjm_run
from flipjump.interpreter.io_devices.FixedIO import FixedIO
from flipjump.utils.classes import TerminationCause

assert flipjump.__file__.startswith('/repo'), flipjump.__file__

W = 64
DATA_WORD = 14
TMP = Path(tempfile.mkdtemp(prefix='huntD_f1_'))


def build(offset: int, name: str) -> Path:
    """op0 jumps into an endless cycle of 4 ops (at bit-addresses 2w*i + offset, i = 2..5);
    the k-th op of the cycle flips bit k of DATA_WORD - so the memory tells the executed-op count mod 8."""
    image = 0
    cycle = [2, 3, 4, 5]
    address = {i: i * 2 * W + offset for i in cycle}
    for k, i in enumerate(cycle):
        image |= (DATA_WORD * W + k) << address[i]
        image |= address[cycle[(k + 1) % 4]] << (address[i] + W)
    image |= (DATA_WORD * W + 10) << 0
    image |= address[2] << W
    words = [(image >> (i * W)) & ((1 << W) - 1) for i in range(16)]
    path = TMP / name
    writer = Writer(path, W, FJMVersion.BaseVersion)
    writer.add_simple_segment_with_data(0, words)
    writer.write_to_file()
    return path


class Device(FixedIO):
    def attach_memory(self, device_memory):
        self.device_memory = device_memory


def cycle_ops_mod8_from_memory(device) -> int:
    value = device.device_memory.read_word(DATA_WORD)
    bits = [(value >> i) & 1 for i in range(4)]
    for n in range(8):
        q, r = divmod(n, 4)
        if [(q + (1 if i < r else 0)) & 1 for i in range(4)] == bits:
            return n
    return -1


def run(path, engine, **kwargs):
    os.environ.pop('FLIPJUMP_NO_NATIVE', None)
    if engine == 'fast':
        os.environ['FLIPJUMP_NO_NATIVE'] = '1'
    if engine == 'featured':
        kwargs['profile'] = True
    device = Device(b'')
    try:
        stats = fjm_run.run(path, io_device=device, **kwargs)
    finally:
        os.environ.pop('FLIPJUMP_NO_NATIVE', None)
    assert stats.termination_cause == TerminationCause.KeyboardInterrupt, stats.termination_cause
    # op0 + the cycle ops
    return stats.op_counter, (stats.op_counter - 1) % 8, cycle_ops_mod8_from_memory(device)


problems = []
aligned, unaligned = build(0, 'aligned.fjm'), build(8, 'unaligned.fjm')

# ---- part A: deterministic - Ctrl+C while the featured loop prints the trace of the 6th op's jump
class InterruptingStdout(io.StringIO):
    newlines_seen = 0

    def write(self, text):
        if text == '\n':  # only _trace_jump's print ends its line
            self.newlines_seen += 1
            if self.newlines_seen == 6:
                signal.raise_signal(signal.SIGINT)  # default handler: raises KeyboardInterrupt right here
        return super().write(text)


signal.signal(signal.SIGINT, signal.default_int_handler)
real_stdout = sys.stdout
sys.stdout = InterruptingStdout()
try:
    ops, reported, in_memory = run(aligned, 'featured', show_trace=True)
finally:
    sys.stdout = real_stdout
if reported != in_memory:
    problems.append(
        f'featured loop, show_trace, SIGINT during the 6th op: reported {ops} ops executed '
        f'(= {reported} cycle ops mod 8), but the memory holds the flips of {in_memory} cycle ops (mod 8)'
    )

# ---- part B: a real timer signal at arbitrary times
signal.signal(signal.SIGALRM, signal.default_int_handler)
rng = random.Random(2024)
for engine, path, trials in (('native', aligned, 15), ('native', unaligned, 15), ('featured', aligned, 40), ('fast', unaligned, 40)):
    inconsistent = 0
    example = None
    for _ in range(trials):
        signal.setitimer(signal.ITIMER_REAL, rng.uniform(0.004, 0.02))
        ops, reported, in_memory = run(path, engine)
        if reported != in_memory:
            inconsistent += 1
            example = example or (ops, reported, in_memory)
    if inconsistent:
        problems.append(
            f'{engine} loop on {path.name}: {inconsistent}/{trials} timer interrupts left op-count and memory '
            f'inconsistent (e.g. reported {example[0]} ops = {example[1]} cycle ops mod 8, memory shows {example[2]})'
        )

if problems:
    print('an interrupt stopped the run in the middle of an op:')
    for problem in problems:
        print('  -', problem)
    sys.exit(1)
print('ok: every interrupted run reported an op count that matches its memory')
sys.exit(0)
