import sys; sys.path.insert(0, '/tmp/hunt_I')
import os, tempfile, hashlib
from pathlib import Path
import flipjump
from flipjump import flipjump_quickstart as q
from flipjump.interpreter.io_devices.IODevice import IODevice
from flipjump.utils.exceptions import IOReadOnEOF

assert flipjump.__file__.startswith('/tmp/hunt_I'), flipjump.__file__


class FastIO(IODevice):
    def __init__(self, data: bytes):
        self.bits = []
        for b in data:
            for i in range(8):
                self.bits.append((b >> i) & 1)
        self.pos = 0
        self.out = []

    def read_bit(self):
        if self.pos >= len(self.bits):
            raise IOReadOnEOF("eof")
        b = self.bits[self.pos]
        self.pos += 1
        return bool(b)

    def write_bit(self, bit):
        self.out.append(1 if bit else 0)

    def get_output(self, *, allow_incomplete_output=False):
        o = bytearray()
        for i in range(0, len(self.out) - 7, 8):
            v = 0
            for j in range(8):
                v |= self.out[i + j] << j
            o.append(v)
        return bytes(o)

    def nibbles(self):
        res = []
        for i in range(0, len(self.out) - 3, 4):
            res.append(self.out[i] | self.out[i + 1] << 1 | self.out[i + 2] << 2 | self.out[i + 3] << 3)
        return res


_cache = {}


def build(body, K, w=64, pre='', post='', init='hex.init'):
    """K = number of hexes in mem (even)."""
    assert K % 2 == 0
    src = f"""
stl.startup
{init}
{pre}
hunt_loop:
  hex.input {K // 2}, mem
{body}
hunt_after:
  hex.print {K // 2}, mem
  ;hunt_loop
mem: hex.vec {K}
{post}
"""
    key = (src, w)
    if key in _cache:
        return _cache[key]
    d = tempfile.mkdtemp(prefix='huntI_')
    fj = Path(d) / 'p.fj'
    fj.write_text(src)
    fjm = Path(d) / 'p.fjm'
    q.assemble([fj], fjm, memory_width=w, print_time=False, warning_as_errors=False)
    _cache[key] = fjm
    return fjm


def run(fjm, K, cases):
    """cases: list of lists of K nibbles. returns list of lists of K nibbles (outputs), and termination."""
    data = bytearray()
    for c in cases:
        assert len(c) == K
        for i in range(0, K, 2):
            data.append(c[i] | (c[i + 1] << 4))
    io = FastIO(bytes(data))
    st = q.run(fjm, io_device=io, print_time=False, print_termination=False)
    nib = io.nibbles()
    outs = [nib[i:i + K] for i in range(0, len(nib) - K + 1, K)]
    return outs, st


def to_nibs(v, n):
    return [(v >> (4 * i)) & 0xf for i in range(n)]


def from_nibs(l):
    v = 0
    for i, x in enumerate(l):
        v |= x << (4 * i)
    return v


class Layout:
    """named variables in mem, each with size; a guard hex after each."""

    def __init__(self, **sizes):
        self.off = {}
        self.size = {}
        o = 0
        for k, s in sizes.items():
            self.off[k] = o
            self.size[k] = s
            o += s + 1  # guard
        if o % 2:
            o += 1
        self.K = o

    def addr(self, k):
        return f"mem+{self.off[k]}*dw"

    def pack(self, guard=0, **vals):
        c = [guard] * self.K
        for k, v in vals.items():
            c[self.off[k]:self.off[k] + self.size[k]] = to_nibs(v, self.size[k])
        return c

    def unpack(self, out):
        r = {}
        for k in self.off:
            r[k] = from_nibs(out[self.off[k]:self.off[k] + self.size[k]])
        used = set()
        for k in self.off:
            used.update(range(self.off[k], self.off[k] + self.size[k]))
        r['_guards'] = [out[i] for i in range(self.K) if i not in used]
        return r


def check(name, body, layout, cases, model, w=64, pre='', post='', verbose=True, maxshow=5):
    """cases: list of dict var->val. model(dict)->dict expected (all vars). returns list of failures."""
    fjm = build(body.format(**{k: layout.addr(k) for k in layout.off}), layout.K, w, pre, post)
    packed = [layout.pack(guard=(i * 7 + 3) & 0xf, **c) for i, c in enumerate(cases)]
    outs, st = run(fjm, layout.K, packed)
    fails = []
    if len(outs) != len(cases):
        fails.append(('count', len(outs), len(cases), str(st.termination_cause)))
    for i, (c, o) in enumerate(zip(cases, outs)):
        got = layout.unpack(o)
        exp = dict(c)
        exp.update(model(dict(c)))
        g = (i * 7 + 3) & 0xf
        bad = {k: (got[k], exp[k]) for k in exp if got[k] != exp[k] % (16 ** layout.size[k])}
        if any(x != g for x in got['_guards']):
            bad['_guards'] = (got['_guards'], g)
        if bad:
            fails.append((i, c, bad))
    if verbose:
        print(f"[{name}] w={w} cases={len(cases)} outs={len(outs)} fails={len(fails)} term={st.termination_cause}")
        for f in fails[:maxshow]:
            print("   ", f)
    return fails
