import sys; sys.path.insert(0, '/repo')
"""C20: the fj command (one-step, --asm, and --run) and assemble_and_run() build their TemporaryDirectory name from the
basenames of ALL the input files, so a project of ~20 source files (or one long file name) dies with
OSError 'File name too long' - while flipjump.assemble() + flipjump.run() handle the very same sources fine."""
import contextlib, io, subprocess, tempfile
from pathlib import Path
import flipjump
from flipjump import assemble, run, assemble_and_run, FixedIO

CLI = [sys.executable, '-c', "import sys; sys.path.insert(0, '/repo'); from flipjump.flipjump_cli import main; main()"]
d = Path(tempfile.mkdtemp())
files = []
for i in range(20):
    f = d / f'module_{i:02d}.fj'
    if i == 0:
        f.write_text('stl.startup\n' + ''.join(f'm{j}\n' for j in range(1, 20)) + 'stl.loop\n')
    else:
        f.write_text(f"def m{i} {{\n  stl.output '{chr(64 + i)}'\n}}\n")
    files.append(f)
names = [str(f) for f in files]

# the Python API: assemble() then run()
dev = FixedIO(b'')
with contextlib.redirect_stdout(io.StringIO()):
    assemble(files, d / 'api.fjm', print_time=False)
    api_term = run(d / 'api.fjm', io_device=dev, print_time=False, print_termination=False)
api_out = dev.get_output()
print('API assemble()+run():', api_out, api_term.termination_cause.name)

problems = []
one = subprocess.run(CLI + names + ['-s', '-o', str(d / 'one.fjm')], capture_output=True)
print('fj one-step: rc', one.returncode, one.stdout[-40:], one.stderr.decode().strip().splitlines()[-1][:80] if one.stderr else '')
if one.returncode != 0 or not one.stdout.endswith(api_out) or not (d / 'one.fjm').exists() or (d / 'one.fjm').read_bytes() != (d / 'api.fjm').read_bytes():
    problems.append('one-step flow disagrees with the API')
two = subprocess.run(CLI + ['--asm'] + names + ['-s', '-o', str(d / 'two.fjm')], capture_output=True)
print('fj --asm:    rc', two.returncode, two.stderr.decode().strip().splitlines()[-1][:80] if two.stderr else '')
if two.returncode != 0 or not (d / 'two.fjm').exists() or (d / 'two.fjm').read_bytes() != (d / 'api.fjm').read_bytes():
    problems.append('two-step flow (--asm) disagrees with the API')
try:
    dev2 = FixedIO(b'')
    with contextlib.redirect_stdout(io.StringIO()):
        assemble_and_run(files, io_device=dev2, print_time=False, print_termination=False)
    if dev2.get_output() != api_out:
        problems.append('assemble_and_run output differs')
except OSError as e:
    print('API assemble_and_run():', repr(e))
    problems.append('assemble_and_run() raises OSError while assemble()+run() work')
# run-only with a long .fjm name
long_fjm = d / ('p' * 230 + '.fjm')
long_fjm.write_bytes((d / 'api.fjm').read_bytes())
r = subprocess.run(CLI + ['--run', str(long_fjm), '-s'], capture_output=True)
print('fj --run <235-char name>.fjm: rc', r.returncode, r.stdout[-30:])
dev3 = FixedIO(b'')
run(long_fjm, io_device=dev3, print_time=False, print_termination=False)
if r.returncode != 0 or not r.stdout.endswith(dev3.get_output()):
    problems.append('fj --run fails on a long (but valid) .fjm file name that flipjump.run() runs')
for p in problems:
    print('VIOLATION:', p)
sys.exit(1 if problems else 0)
