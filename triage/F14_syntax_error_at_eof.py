import sys; sys.path.insert(0,'/repo')
import flipjump, tempfile, pathlib, traceback
from flipjump.utils.exceptions import FlipJumpException
def t(src, **kw):
    d=pathlib.Path(tempfile.mkdtemp()); (d/'a.fj').write_text(src)
    try:
        flipjump.assemble([d/'a.fj'], d/'a.fjm', print_time=False, use_stl=False, **kw); print(repr(src)[:40],'-> assembled')
    except FlipJumpException as e:
        c=e.__cause__
        print(repr(src)[:40],'->',type(e).__name__, str(e)[:90].replace('\n',' '), '| cause', type(c).__name__ if c else None, str(c)[:80] if c else '')
    except BaseException as e:
        print(repr(src)[:40],'-> RAW', type(e).__name__, str(e)[:100])
t('(')
t('(\n')
t(';1<<20000\n')
t('x = 1<<20000\n;x\n')
t('pad 0-(1<<20000)\n')
t(';0\n;(1<<20000)-(1<<20000)\n')
print('----')
t('def m {\n ;0\n')
t('ns a {\n ;0\n')
t(';0\nrep(')
