import sys; sys.path.insert(0, '/repo')
"""C13: the result of assemble() depends on the max_recursion_depth of an EARLIER assemble() call in the process.
resolve_macros() calls sys.setrecursionlimit(max_recursion_depth + 100) only after parsing and never restores it,
so the parse stage of the next call runs under the previous call's limit (and a fresh process parses under python's default)."""
import hashlib, json, subprocess, tempfile
from pathlib import Path


def child(prior_depth: str, nesting: int) -> None:
    import contextlib, io
    from flipjump import assemble
    from flipjump.utils.exceptions import FlipJumpException
    d = Path(tempfile.mkdtemp())
    small = d / 'small.fj'; small.write_text(';0\n')
    probe = d / 'probe.fj'
    # a macro whose jump expression is a left-nested sum: a+1+1+...+1 (labels can't be folded at parse time)
    probe.write_text('def m a {\n  ;a' + '+1' * nesting + '\n}\nm 0\n;0\n')
    with contextlib.redirect_stdout(io.StringIO()):
        if prior_depth != 'none':
            assemble([small], d / 's.fjm', use_stl=False, print_time=False, max_recursion_depth=int(prior_depth))
        try:
            assemble([probe], d / 'p.fjm', use_stl=False, print_time=False, debugging_file_path=d / 'p.fjd')
            res = ['ok', hashlib.sha1((d / 'p.fjm').read_bytes()).hexdigest(), hashlib.sha1((d / 'p.fjd').read_bytes()).hexdigest()]
        except FlipJumpException as e:
            res = ['FAILED: ' + type(e).__name__ + ': ' + str(e)[:90]]
    print(json.dumps(res))


def run_child(prior_depth: str, nesting: int):
    r = subprocess.run([sys.executable, __file__, 'child', prior_depth, str(nesting)], capture_output=True, text=True)
    return json.loads(r.stdout.strip().splitlines()[-1])


if __name__ == '__main__':
    if len(sys.argv) > 1 and sys.argv[1] == 'child':
        child(sys.argv[2], int(sys.argv[3])); sys.exit(0)
    bad = False
    for prior, nesting in (('50', 200), ('5000', 700)):
        fresh = run_child('none', nesting)
        warm = run_child(prior, nesting)
        same = fresh == warm
        print(f'probe (expression nesting {nesting}, default options): fresh process -> {fresh[0]};  '
              f'after assemble(max_recursion_depth={prior}) of an unrelated program -> {warm[0]}   {"same" if same else "DIFFERENT"}')
        bad |= not same
    sys.exit(1 if bad else 0)
