import sys; sys.path.insert(0, '/repo')
# hex.sub_constant n, dst, 0 does not assemble ("negative shift count"), while its twin hex.add_constant n, dst, 0
# assembles to a no-op.  dst[:n] -= 0 must leave dst unchanged for the operand value 0 as for any other constant.
import tempfile
from pathlib import Path
import flipjump
from flipjump import flipjump_quickstart as q
from flipjump.interpreter.io_devices.FixedIO import FixedIO

assert flipjump.__file__.startswith('/repo'), flipjump.__file__


def run(macro, const, w):
    src = f"""
stl.startup
hex.init
  hex.{macro} 2, x, {const}
  hex.print 1, x
  stl.loop
x: hex.vec 2, 0x5a
"""
    d = Path(tempfile.mkdtemp(prefix='huntI_f2_'))
    (d / 'p.fj').write_text(src)
    q.assemble([d / 'p.fj'], d / 'p.fjm', memory_width=w, print_time=False)
    io = FixedIO(b'')
    q.run(d / 'p.fjm', io_device=io, print_time=False, print_termination=False)
    return io.get_output(allow_incomplete_output=True)


bad = []
for w in (64, 32):
    for macro, const, exp in (('add_constant', 0, 0x5a), ('sub_constant', 3, 0x57), ('sub_constant', 0, 0x5a)):
        try:
            out = run(macro, const, w)
            if out != bytes([exp]):
                bad.append(f"w={w} hex.{macro} 2, x, {const}: x={out!r}, expected {exp:#x}")
        except Exception as e:
            bad.append(f"w={w} hex.{macro} 2, x, {const}: assembly failed: {type(e).__name__}: {str(e).splitlines()[0][:160]}")
if bad:
    print("\n".join(bad))
    sys.exit(1)
print("ok")
sys.exit(0)
