import sys, io, pathlib, tempfile, builtins
sys.path.insert(0,'/repo')
import flipjump
from flipjump.interpreter.io_devices.FixedIO import FixedIO
d=pathlib.Path(tempfile.mkdtemp())
src=d/'p.fj'; src.write_text('stl.startup\nx:\nstl.output "A"\nstl.loop\n')
fjm=d/'p.fjm'; dbg=d/'p.dbg'
flipjump.assemble([src], fjm, debugging_file_path=dbg, print_time=False)
def run(cmds):
    it=iter(cmds)
    import flipjump.interpreter.debugging.user_queries as uq
    builtins_input=builtins.input
    builtins.input=lambda prompt='': next(it)
    try:
        io_dev=FixedIO(b'')
        try:
            st=flipjump.debug(fjm, dbg, breakpoints_addresses={0}, io_device=io_dev, print_time=False, print_termination=False)
            return ('ok', st.termination_cause, st.op_counter, io_dev.get_output(allow_incomplete_output=True))
        except BaseException as e:
            return ('RAISED', type(e).__name__, str(e)[:90])
    finally:
        builtins.input=builtins_input
import contextlib
for name,cmds in [('plain',['c']), ('read ok',['r 0','c']), ('read :b8:x',['r :b8:0','c']), ('len5000',['r :b'+'1'*5000+':0','c']), ('idx5000',['r :b8:'+'1'*5000+':0','c']), ('addr5000',['r '+'1'*5000,'c']), ('skip5000',['s '+'1'*5000,'c'])]:
    with contextlib.redirect_stdout(io.StringIO()):
        r=run(cmds)
    print(name, r)
