import sys; sys.path.insert(0, '/repo')
# A well-formed init_screen command with the largest documented size (width=height=0xFFFF, both are u16 fields)
# makes InMemoryScreen._init_screen build a python list of 4,294,836,225 entries (~34 GB): the command is neither
# decoded nor rejected with a device error - the run dies with MemoryError (reported by fjm_run.run as
# "Unknown exception ... please report this bug"), or swallows tens of GB where that much memory exists.
# (the address-space limit below only makes the demonstration fast, deterministic and harmless.)
import resource
resource.setrlimit(resource.RLIMIT_AS, (4 << 30, 4 << 30))
import io, contextlib, tempfile
from pathlib import Path
import flipjump
from flipjump import assemble
from flipjump.interpreter import fjm_run
from flipjump.interpreter.io_devices.ScreenIO import InMemoryScreen
from flipjump.utils.exceptions import IODeviceException

SRC = '''
stl.startup
  stl.output_char 0x01      // init_screen
  stl.output_char 0xFF      // width  = 0xFFFF
  stl.output_char 0xFF
  stl.output_char 0xFF      // height = 0xFFFF
  stl.output_char 0xFF
  stl.output_char 8         // bpp
  stl.output_char 0x00      // palette_size = 256
  stl.output_char 0x01
  stl.loop
'''
failed = False
with tempfile.TemporaryDirectory() as d:
    d = Path(d)
    (d / 'p.fj').write_text(SRC)
    for w in (16, 32, 64):
        fjm = d / f'p{w}.fjm'
        with contextlib.redirect_stdout(io.StringIO()):
            assemble([d / 'p.fj'], fjm, memory_width=w, print_time=False)
        dev = InMemoryScreen()
        try:
            ts = fjm_run.run(fjm, io_device=dev)
            print(f'w={w}: accepted ({dev.width}x{dev.height}), {ts.termination_cause}')
        except IODeviceException as e:
            print(f'w={w}: rejected with a device error: {e}')
        except BaseException as e:
            failed = True
            cause = e.__cause__
            print(f'w={w}: init_screen 65535x65535 ended with {type(e).__name__}: {e}'
                  + (f'  (caused by {type(cause).__name__})' if cause is not None else ''))
sys.exit(1 if failed else 0)
