import sys; sys.path.insert(0, '/repo')
# C08: moving a pointer / the stack pointer back by ZERO cells (hex.ptr_sub p, 0; hex.sp_sub 0; stl.call f, 0;
# and every n-cell pointer macro called with n = 0, which restores the pointer with ptr_sub ptr, n) must be a no-op,
# exactly like hex.ptr_add p, 0 / hex.sp_add 0 are.  On the unchanged tree the program does not even assemble:
# hex.sub_constant lacks the const != 0 guard that hex.add_constant has, and evaluates const >> (-1 & -4).
import contextlib, io, tempfile
from pathlib import Path
import flipjump
from flipjump import assemble_and_run, FixedIO, TerminationCause

assert flipjump.__file__.startswith('/repo/'), flipjump.__file__

CASES = [
    ('hex.ptr_add p, 0   (control)', 'hex.ptr_add p, 0'),
    ('hex.sp_add 0       (control)', 'hex.sp_add 0'),
    ('hex.ptr_sub p, 0', 'hex.ptr_sub p, 0'),
    ('hex.sp_sub 0', 'hex.sp_sub 0'),
    ('stl.call f, 0', 'stl.call f, 0'),
    ('hex.read_hex 0, d, p', 'hex.read_hex 0, d, p'),
    ('hex.read_byte 0, d, p', 'hex.read_byte 0, d, p'),
    ('hex.write_hex 0, p, d', 'hex.write_hex 0, p, d'),
    ('hex.write_byte 0, p, d', 'hex.write_byte 0, p, d'),
    ('hex.xor_hex_to_ptr 0, p, d', 'hex.xor_hex_to_ptr 0, p, d'),
    ('hex.xor_byte_to_ptr 0, p, d', 'hex.xor_byte_to_ptr 0, p, d'),
]

TEMPLATE = '''stl.startup_and_init_all
{body}
hex.read_byte d, p                 // the pointer must still address buf[1]
hex.print_as_digit 2, d, 0
stl.get_sp q
hex.sub w/4, q, sp0                // sp must be back at its start
hex.print_as_digit w/4, q, 0
stl.loop
f: stl.output 'f'
   stl.return
p: hex.vec w/4, buf+dw
q: hex.vec w/4, 0
sp0: hex.vec w/4, hex.pointers.stack
d: hex.vec 4, 0
pad 1
buf: ;0x12*dw
     ;0x34*dw
     ;0x56*dw
'''

bad = []
for w in (32, 64):
    for name, body in CASES:
        d = Path(tempfile.mkdtemp(prefix='hk_f1_'))
        (d / 't.fj').write_text(TEMPLATE.format(body=body))
        dev = FixedIO(b'')
        sink = io.StringIO()
        try:
            with contextlib.redirect_stdout(sink), contextlib.redirect_stderr(sink):
                st = assemble_and_run([d / 't.fj'], memory_width=w, io_device=dev, print_time=False, print_termination=False)
            out = dev.get_output(allow_incomplete_output=True).decode()
            exp = ('f' if 'stl.call' in body else '') + '34' + '0' * (w // 4)
            if st.termination_cause != TerminationCause.Looping or out != exp:
                bad.append(f'w={w} {name}: ran but output {out!r} != {exp!r} ({st.termination_cause})')
        except Exception as e:
            bad.append(f'w={w} {name}: {type(e).__name__}: {str(e)[:160]}')

if bad:
    print('DEFECT: moving a pointer back by zero cells is refused / wrong:')
    for b in bad:
        print('  ', b)
    sys.exit(1)
print('ok: zero-cell pointer/stack moves are no-ops')
sys.exit(0)
