import sys, traceback
from pathlib import Path
from flipjump import assemble
from flipjump.utils.exceptions import FlipJumpException
cases = {
 'pad_after_huge_segment': (";0\nsegment (1<<20000) + w\npad 2\n", {}),
 'trace_in_huge_rep': ("def foo x {\n  nosuchmacro x\n}\nrep(1<<20000, i) foo i\n", {}),
 'labels_json': (";0\nsegment 1<<20000\nx:\n", {'debugging_file_path': Path('/tmp/f19_triage_dbg.bin')}),
 'stats': (";0\nsegment 1<<2000\n", {'show_statistics': True}),
}
import flipjump
print(flipjump.__file__)
for name,(src,kw) in cases.items():
    p=Path(f'/tmp/f19_triage_{name}.fj'); p.write_text(src)
    out=Path(f'/tmp/f19_triage_{name}.fjm')
    if out.exists(): out.unlink()
    try:
        assemble.assemble if False else None
        from flipjump.assembler.assembler import assemble as asm
        import inspect
        asm([( 's1', p)], 64, __import__('flipjump').fjm.fjm_writer.Writer(out, 64, __import__('flipjump').fjm.fjm_consts.FJMVersion.BaseVersion), print_time=False, **kw)
        print(name, 'assembled OK', out.exists())
    except FlipJumpException as e:
        print(name, type(e).__name__, str(e)[:150].replace('\n',' | '), '| output exists:', out.exists())
    except BaseException as e:
        print(name, 'NON-LIBRARY', type(e).__name__, str(e)[:100])
