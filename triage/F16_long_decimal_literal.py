import sys, tempfile, pathlib, traceback
sys.path.insert(0,'/repo')
import flipjump
from flipjump.utils.exceptions import FlipJumpException
d=pathlib.Path(tempfile.mkdtemp())
for name,src in [('dec5000', ';' + '1'*5000 + '\n'), ('hex5000', ';0x' + 'f'*5000 + '\n'), ('bin', ';0b' + '1'*20000 + '\n'), ('const', 'x = ' + '1'*5000 + '\n;x\n'), ('dec4300', ';' + '1'*4300 + '\n'), ('dec4301', ';' + '1'*4301 + '\n')]:
    f=d/f'{name}.fj'; f.write_text(src)
    try:
        flipjump.assemble([f], d/f'{name}.fjm', use_stl=False, print_time=False)
        print(name, 'assembled')
    except FlipJumpException as e:
        print(name, type(e).__name__, str(e)[:160].replace('\n',' | '), '| cause:', repr(e.__cause__)[:120])
    except BaseException as e:
        print(name, 'RAW', type(e).__name__, str(e)[:100])
