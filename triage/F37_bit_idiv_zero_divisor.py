import sys; sys.path.insert(0, '/repo')
import io, contextlib, tempfile
from pathlib import Path
import flipjump
from flipjump import FixedIO


def run_fj(body, variables, w=64):
    """variables: list of (name, nbits, initial value) laid out consecutively. Runs `body`, returns {name: value}."""
    total = sum(n for _, n, _ in variables)
    pad = (-total) % 8
    lines = ['stl.startup', body]
    for name, n, _ in variables:
        lines.append(f'rep({n}, i) bit.output {name}+i*dw')
    if pad:
        lines.append(f'rep({pad}, i) bit.output _zero')
    lines.append('stl.loop')
    lines.append('_zero: bit.bit 0')
    for name, n, val in variables:
        lines.append(f'{name}: bit.vec {n}, {val}')
    with tempfile.TemporaryDirectory() as d:
        fj = Path(d) / 'p.fj'
        fjm = Path(d) / 'p.fjm'
        fj.write_text('\n'.join(lines) + '\n')
        dev = FixedIO(b'')
        with contextlib.redirect_stdout(io.StringIO()):
            flipjump.assemble([fj], fjm, memory_width=w, print_time=False)
            flipjump.run(fjm, io_device=dev, print_time=False, print_termination=False)
    bits = []
    for b in dev.get_output(allow_incomplete_output=True):
        bits.extend((b >> j) & 1 for j in range(8))
    res, pos = {}, 0
    for name, n, _ in variables:
        res[name] = sum(bit << j for j, bit in enumerate(bits[pos:pos + n]))
        pos += n
    return res


# bit.idiv / bit.idiv_loop document: "if b==0: goto end (do nothing)".
bad = []
for mac in ('idiv', 'idiv_loop'):
    for w in (32, 64):
        for (n, a, b, q, r) in [(4, 11, 0, 9, 7), (4, 15, 0, 4, 2), (3, 4, 0, 1, 3), (8, 0x80, 0, 0x12, 0x34)]:
            got = run_fj(f'bit.{mac} {n}, a, b, q, r', [('a', n, a), ('b', n, b), ('q', n, q), ('r', n, r)], w)
            exp = {'a': a, 'b': b, 'q': q, 'r': r}
            if got != exp:
                bad.append(f'bit.{mac} n={n} w={w}: before {exp} after {got}')
if bad:
    print('division by zero is documented as "do nothing", but q and r are modified when a is negative:')
    print('\n'.join(bad))
    sys.exit(1)
print('ok')
