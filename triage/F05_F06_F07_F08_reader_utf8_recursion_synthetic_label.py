import os as _os; _os.makedirs("/tmp/fjverif-triage", exist_ok=True)  # scratch dir; remove after use
import traceback, struct, os
from pathlib import Path
import flipjump
from flipjump import FJMVersion
from flipjump.fjm.fjm_writer import Writer
from flipjump.fjm.fjm_reader import Reader
def asm(src, w=64, v=FJMVersion.NormalVersion, raw=None, **kw):
    p=Path('/tmp/fjverif-triage/s.fj'); 
    if raw is not None: p.write_bytes(raw)
    else: p.write_text(src)
    out=Path('/tmp/fjverif-triage/o.fjm')
    if out.exists(): out.unlink()
    try:
        flipjump.assemble([p], out, memory_width=w, use_stl=False, fjm_version=v, print_time=False, **kw)
        print('OK', repr(src)[:50], out.exists())
    except Exception as e:
        print(type(e).__name__, '|', str(e).splitlines()[0][:90], '| cause:', type(e.__cause__).__name__ if e.__cause__ else None, '| out exists:', out.exists(), '|', repr(src)[:40])
print('--F6 utf8'); asm('', raw=b';0\n// \xff\xfe\n')
print('--F7 recursion'); asm(';x' + '+1'*3000 + '\nx:\n')
asm(';' + '('*3000 + '1' + ')'*3000 + '\n')
asm(';x' + '+x'*3000 + '\nx:\n')
print('--F8 synthetic'); asm('ns _ {\n wflip_area_start_0:\n ;0\n}\nsegment 1024\n;_.wflip_area_start_0\n')
asm(';0\nsegment 1024\n ns _ {\n wflip_area_start_0:\n ;0\n}\n')
print('--F5 reader inconsistency')
p=Path('/tmp/fjverif-triage/r.fjm')
def craft(segs,data,w=16,v=1):
    with open(p,'wb') as f:
        f.write(struct.pack('<HHQQ',0x4a46,w,v,len(segs)))
        if v: f.write(struct.pack('<QL',0,0))
        for s in segs: f.write(struct.pack('<QQQQ',*s))
        f.write(struct.pack(f'<{len(data)}H',*data))
    try:
        r=Reader(p); print('loaded', segs, dict(r.memory), r.memory_segments)
    except Exception as e: print(type(e).__name__, e)
craft([(0,2,0,4)],[1,2,3,4])       # data_length > segment_length
craft([(0,4,0,2),(2,2,2,2)],[1,2,3,4])  # overlapping segments
craft([(1,2,0,2)],[1,2])   # odd start
craft([(0,2,0,2)],[1,2,3,4,5])  # trailing unreferenced data
craft([(2**63,2**63+2,0,2)],[1,2])  # overflow end
