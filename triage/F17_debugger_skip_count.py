import sys, io, pathlib, tempfile, builtins, contextlib
sys.path.insert(0,'/repo')
import flipjump
from flipjump.interpreter.io_devices.FixedIO import FixedIO
d=pathlib.Path(tempfile.mkdtemp())
src=d/'p.fj'; src.write_text('stl.startup\nstl.output "A"\nstl.loop\n')
fjm=d/'p.fjm'; dbg=d/'p.dbg'
flipjump.assemble([src], fjm, debugging_file_path=dbg, print_time=False)
def run(cmds):
    it=iter(cmds); bi=builtins.input
    builtins.input=lambda prompt='': next(it)
    try:
        io_dev=FixedIO(b'')
        try:
            st=flipjump.debug(fjm, dbg, breakpoints_addresses={0}, io_device=io_dev, print_time=False, print_termination=False)
            return ('ok', st.termination_cause, st.op_counter, io_dev.get_output(allow_incomplete_output=True))
        except BaseException as e:
            return ('RAISED', type(e).__name__, str(e)[:90], repr(e.__cause__)[:100])
    finally:
        builtins.input=bi
for name,cmds in [('skip -0xfff..',['s -0x'+'f'*5000,'c']), ('skip 0xfff..',['s 0x'+'f'*5000,'c']), ('read 0xfff',['r 0x'+'f'*5000,'c']), ('read :b8:0xfff',['r :b8:0x'+'f'*5000,'c'])]:
    with contextlib.redirect_stdout(io.StringIO()):
        r=run(cmds)
    print(name, r)
