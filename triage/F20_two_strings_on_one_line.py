import sys; sys.path.insert(0, '/repo')
# C12: two string literals on one line are lexed as ONE string literal.
# the lexer's character class for a string body ([\x20-\x5B\x5D-\x7E]) contains the unescaped double-quote, and the
# STRING regex "(char)*" is greedy - so it runs from the first quote of the line to the LAST quote of the line
# (even into a trailing // comment). `"a" + "b"` evaluates to the little-endian value of the 9 characters  a" + "b
# instead of 0x61 + 0x62 = 195; `m "a", "b"` becomes a 1-argument call.
import io, tempfile, contextlib
from pathlib import Path
import flipjump
from flipjump.assembler.fj_parser import parse_macro_tree
from flipjump.assembler.preprocessor import resolve_macros
from flipjump.assembler.inner_classes.ops import FlipJump
from flipjump.utils.exceptions import FlipJumpException

assert flipjump.__file__.startswith('/repo'), flipjump.__file__


def jump_values(src: str):
    d = tempfile.mkdtemp(prefix='hA_f4_')
    p = Path(d) / 'a.fj'
    p.write_text(src)
    with contextlib.redirect_stdout(io.StringIO()):
        macros = parse_macro_tree([('f1', p)], 64, True)
        ops, labels = resolve_macros(64, macros)
    sys.setrecursionlimit(1000)
    return [op.get_jump(labels) for op in ops if isinstance(op, FlipJump)]


def le(s: str) -> int:
    return int.from_bytes(s.encode('ascii'), 'little')


CASES = [
    # (source, expected jump values)  - expected = unbounded-integer arithmetic over the little-endian string values
    (';"a" + "b"\n', [le('a') + le('b')]),
    (';"ab" * "c"\n', [le('ab') * le('c')]),
    (';("a" == "a") ? "x" : "y"\n', [le('x')]),
    (';"a"  // the letter "a"\n', [le('a')]),
    ('def m x, y {\n  ;x + y\n}\nm "a", "b"\n', [le('a') + le('b')]),
    # controls (these work): one string per line, chars
    (";'a' + 'b'\n", [195]),
    ('x = "a"\n;x + x\n', [2 * le('a')]),
]

bad = []
for src, expected in CASES:
    try:
        got = jump_values(src)
    except FlipJumpException as e:
        got = f'{type(e).__name__}: {str(e).strip().splitlines()[-1][:150]}'
    except BaseException as e:
        got = f'raw {type(e).__name__}: {e}'
    if got != expected:
        bad.append(f'{src!r}: expected {expected}, got {got}')

if bad:
    print('DEFECT PRESENT (C12): string literals sharing a line are merged into one literal:')
    for b in bad:
        print('  -', b[:400])
    sys.exit(1)
print('ok')
sys.exit(0)
