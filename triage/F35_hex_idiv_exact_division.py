import sys; sys.path.insert(0, '/repo')
# hex.idiv: when b divides a exactly, rem_opt 0 (operands of different signs) and rem_opt 2 (a negative)
# still "fix" the zero remainder by +-b: the result is r == b (or |b|) and q off by one, instead of r == 0, q == a/b.
import tempfile
from pathlib import Path
import flipjump
from flipjump import flipjump_quickstart as q
from flipjump.interpreter.io_devices.FixedIO import FixedIO

assert flipjump.__file__.startswith('/repo'), flipjump.__file__
N = 2  # hexes


def signed(x, n=N):
    x %= 16 ** n
    return x - 16 ** n if x >= 16 ** n // 2 else x


def program(rem_opt):
    return f"""
stl.startup
hex.init
loop:
  hex.input {N}, a        // {N} bytes -> a[:{2*N}] ; only a[:{N}], b[:{N}] are used as operands
  hex.idiv {N}, {N}, qv, rv, a, a+{N}*dw, div0, {rem_opt}
  hex.print 1, qv
  hex.print 1, rv
  hex.print {N}, a
  ;loop
div0: stl.loop
a:  hex.vec {2*N}
qv: hex.vec {N}
rv: hex.vec {N}
"""


def run(rem_opt, pairs, w):
    d = Path(tempfile.mkdtemp(prefix='huntI_f1_'))
    (d / 'p.fj').write_text(program(rem_opt))
    q.assemble([d / 'p.fj'], d / 'p.fjm', memory_width=w, print_time=False)
    data = b''.join(bytes([a & 0xff, b & 0xff]) for a, b in pairs)
    io = FixedIO(data)
    q.run(d / 'p.fjm', io_device=io, print_time=False, print_termination=False)
    out = io.get_output(allow_incomplete_output=True)
    return [(out[4 * i], out[4 * i + 1], out[4 * i + 2], out[4 * i + 3]) for i in range(len(pairs))]


def expected(a, b, rem_opt):
    a, b = signed(a), signed(b)
    if rem_opt == 0:       # sign(r) == sign(b)
        r = a % b
    elif rem_opt == 1:     # sign(r) == sign(a)
        r = abs(a) % abs(b) * (1 if a >= 0 else -1)
    else:                  # r always positive
        r = a % abs(b)
    return (a - r) // b, r


pairs = [(-6, 3), (6, -3), (0, -8), (-128, 1), (-20, -4), (-20, 4), (20, -5), (21, -5), (-21, 5), (-21, -5), (100, 7)]
bad = []
for w in (64, 32):
    for rem_opt in (0, 1, 2):
        res = run(rem_opt, pairs, w)
        for (a, b), (gq, gr, ga, gb) in zip(pairs, res):
            eq, er = expected(a, b, rem_opt)
            if (signed(gq), signed(gr)) != (eq, er) or (ga, gb) != (a & 0xff, b & 0xff):
                bad.append(f"w={w} rem_opt={rem_opt}: {signed(a)} idiv {signed(b)} -> q={signed(gq)}, r={signed(gr)}"
                           f" (expected q={eq}, r={er}); a,b after = {signed(ga)},{signed(gb)}")
if bad:
    print("hex.idiv returns a remainder equal to the divisor (and a quotient off by one) on exact divisions:")
    print("\n".join(bad))
    sys.exit(1)
print("ok")
sys.exit(0)
