import sys; sys.path.insert(0, '/repo')
"""
C15 (reads report the true value of the addressed variable): a ':type:' variable read of a macro-local label.
every macro-local label's full name is its expansion path ("f1:l9:make_var---value", it always contains ':'),
the plain read accepts that full name, but the typed read (:hN: / :bN: / :BN: / :f: / :j:) cuts the target at
its first ':' (regex "[^:]*" with re.match) and silently drops the rest - so the variable can't be read, and
what is left ("f1") is looked up as a label / parsed as the hex address 0xf1 instead.
"""
import contextlib
import io
import tempfile
from pathlib import Path

import flipjump
from flipjump.interpreter import fjm_run
from flipjump.interpreter.debugging.breakpoints import get_breakpoint_handler
from flipjump.interpreter.io_devices.FixedIO import FixedIO
from flipjump.utils.functions import load_debugging_labels

print(flipjump.__file__)
tmp = Path(tempfile.mkdtemp())
W = 64
source = tmp / 'prog.fj'
source.write_text(
    '''dw = 2 * w
    ;code
f1:             // a legal top-level label that happens to be named like the file's short name
    ;0x55 * dw  // a 2-hex variable holding 0x55 (hex cell = the jump word, value * dw)... first nibble
    ;0x5 * dw
code:
    make_var
end_loop:
    ;end_loop

def make_var @ value, after {
    ;after
  value:        // a macro-local 2-hex variable, holding 0xA7
    ;0x7 * dw
    ;0xA * dw
  after:
}
'''
)
fjm, fjd = tmp / 'prog.fjm', tmp / 'prog.fjd'
with contextlib.redirect_stdout(io.StringIO()):
    flipjump.assemble([source], fjm, memory_width=W, use_stl=False, debugging_file_path=fjd, print_time=False)
labels = load_debugging_labels(fjd)
local_label = next(name for name in labels if name.endswith('---value'))
print('the macro-local variable label:', local_label, '->', hex(labels[local_label]))


def session(lines):
    handler = get_breakpoint_handler(fjd, None, {'code'}, None)
    out = io.StringIO()
    old_stdin, sys.stdin = sys.stdin, io.StringIO(''.join(line + '\n' for line in lines))
    try:
        with contextlib.redirect_stdout(out):
            fjm_run.run(fjm, io_device=FixedIO(b''), breakpoint_handler=handler)
    finally:
        sys.stdin = old_stdin
    return out.getvalue()


bad = []

# 1) the plain read resolves the full local-label name (so this is the name the debugger expects)
plain = session([f'r {local_label}', 'ca'])
if f'memory[{hex(labels[local_label])}] = ' not in plain:
    print('unexpected: even the plain read of the full label failed'); print(plain); sys.exit(1)

# 2) the typed read of the very same label must report the variable's value 0xA7
typed = session([f'r :h2:{local_label}', 'ca'])
answer = typed.split(f':h2:{local_label}', 1)[-1] if f':h2:{local_label}' in typed else typed
if '(or 0xa7)' not in typed:
    shown = [line for line in typed.splitlines() if 'memory[' in line or 'Failed' in line or 'requested' in line]
    bad.append(f'"r :h2:{local_label}" did not report 0xa7; the debugger said: {shown}')

# 3) the flip-word read of an op inside the macro (":f:1:<label>" = one op past the label)
typed_f = session([f'r :f:1:{local_label}', 'ca'])
expected_address = labels[local_label] + 2 * W
if f'memory[{hex(expected_address)}] = ' not in typed_f:
    shown = [line for line in typed_f.splitlines() if 'memory[' in line or 'Failed' in line or 'requested' in line]
    bad.append(f'"r :f:1:{local_label}" did not read {hex(expected_address)}; the debugger said: {shown}')

# 4) anything after the first ':' of the target is silently ignored (the help even advertises ":f:n:label:N")
a = session(['r :f:1:code:3', 'ca'])
b = session(['r :f:1:code', 'ca'])
line_a = [line for line in a.splitlines() if line.startswith('memory[')]
line_b = [line for line in b.splitlines() if line.startswith('memory[')]
if line_a and line_a == line_b:
    bad.append(f'"r :f:1:code:3" is answered exactly like "r :f:1:code" ({line_a[0]}): the ":3" tail is '
               f'silently dropped (no error, no 1*3-ops step as the help text says)')

if bad:
    print('DEFECT: typed variable reads cut the target at its first ":"')
    for line in bad:
        print('  ' + line)
    sys.exit(1)
print('ok')
sys.exit(0)
