import sys; sys.path.insert(0, '/repo')
"""
C15: a debugger read whose effective address lies beyond the 2^w-bit address space is not refused -
it silently wraps around and reports the content of an unrelated low word as if it were the value at that address.
(the range check in show_memory_address is done on the base address only, before the :f:/:j: offset or the
 :b/:h/:B index/length is added; Reader._bit_address_decompose then masks the word address.)
"""
import contextlib
import io
import re
import tempfile
from pathlib import Path

import flipjump
from flipjump.fjm.fjm_consts import FJMVersion
from flipjump.fjm.fjm_writer import Writer
from flipjump.interpreter import fjm_run
from flipjump.interpreter.debugging.breakpoints import BreakpointHandler
from flipjump.interpreter.io_devices.FixedIO import FixedIO

print(flipjump.__file__)
tmp = Path(tempfile.mkdtemp())


def debug_session(w, words, lines):
    path = tmp / f'p{w}.fjm'
    writer = Writer(path, w, FJMVersion.NormalVersion)
    writer.add_simple_segment_with_data(0, words)
    writer.write_to_file()
    handler = BreakpointHandler({0: None}, {}, {})
    out = io.StringIO()
    old_stdin, sys.stdin = sys.stdin, io.StringIO(''.join(line + '\n' for line in lines))
    try:
        with contextlib.redirect_stdout(out):
            fjm_run.run(path, io_device=FixedIO(b''), breakpoint_handler=handler)
    finally:
        sys.stdin = old_stdin
    return out.getvalue()


failures = []
for w in (16, 64):
    dw = 2 * w
    # op0: flip 0x1234*? ; jump dw      op1 (at dw): a self-loop that flips a bit of op0 (regular termination)
    words = [0xABC0, dw, 8, dw]
    wrap_ops = (1 << w) // 2  # this many ops past address 0 == bit-address w * 2^w, far outside the 2^w address space
    reads = [
        f'r :f:{wrap_ops}:0',  # "the flip word 2^(w-1) ops past address 0"
        f'r :j:{wrap_ops}:0',
        f'r :h1:{wrap_ops}:0',  # "cell number 2^(w-1) of an array of 1-hex variables that starts at address 0"
    ]
    transcript = debug_session(w, words, reads + ['ca'])
    # every answer of the form "memory[ADDR...] = VALUE" is a claimed successful read of ADDR
    for m in re.finditer(r'memory\[(0x[0-9a-f]+)(?:, 0x[0-9a-f]+\))?\]? = (\d+)', transcript):
        address, value = int(m.group(1), 16), int(m.group(2))
        if address >= (1 << w):
            failures.append(
                f'w={w}: the debugger answered "{m.group(0)}" - address {hex(address)} does not exist in a '
                f'{w}-bit memory (max {hex((1 << w) - 1)}); the value shown is the one of a wrapped-around low word'
            )

if failures:
    print('DEFECT: out-of-address-space debugger reads wrap around instead of being refused:')
    for f in failures:
        print('  ' + f)
    sys.exit(1)
print('ok: reads beyond the address space are refused')
sys.exit(0)
