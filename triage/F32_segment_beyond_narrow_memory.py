"""C06 (and the reader side of C10): at w in {8,16,32} the Writer accepts - and the Reader loads - segments that
lie beyond the w-bit memory (any start up to 2^64 words, whatever the width). such words cannot be represented by
a w-bit FlipJump memory (the assembler refuses the very same layout with "Not enough space with the w-bits
memory-width"), and reading them back through the Reader does not give the supplied words: the Reader's accessors
wrap word addresses modulo 2^w, so an address inside the far segment yields the word of ANOTHER segment, or the
"garbage" memory error although it is inside a segment.

exit 1 = defect present; exit 0 = the writer rejects the layout (FlipJumpWriteFjmException) or every address of
every segment reads back the supplied word.
"""
import sys; sys.path.insert(0, '/repo')
import tempfile
from pathlib import Path
import flipjump
from flipjump.fjm.fjm_reader import Reader
from flipjump.fjm.fjm_writer import Writer
from flipjump.fjm.fjm_consts import FJMVersion
from flipjump.utils.exceptions import FlipJumpWriteFjmException, FlipJumpReadFjmException, FlipJumpException

T = Path(tempfile.mkdtemp())
problems = []
for w in (8, 16, 32):
    for version in FJMVersion:
        low, far = [0x11, 0x22], [0x33, 0x44]
        far_start = 1 << w          # word address 2^w (bit address w*2^w): far outside the 2^w-bit memory
        path = T / f'{w}_{version.value}.fjm'
        writer = Writer(path, w, version)
        try:
            writer.add_simple_segment_with_data(0, list(low))
            writer.add_simple_segment_with_data(far_start, list(far))
            writer.write_to_file()
        except FlipJumpWriteFjmException:
            continue  # fine: an unrepresentable input is rejected with the write error
        try:
            reader = Reader(path)
        except FlipJumpReadFjmException as e:
            problems.append(f'w={w} v={version.value}: writer produced a file the reader refuses ({e})')
            continue
        for start, words in ((0, low), (far_start, far)):
            for i, expected in enumerate(words):
                address = start + i
                try:
                    got = reader.get_word(address * w)          # the public word accessor (bit address)
                except FlipJumpException as e:
                    got = f'{type(e).__name__}({e})'
                if got != expected:
                    problems.append(f'w={w} v={version.value}: word {hex(address)} of segment '
                                    f'[{hex(start)}, {hex(start + 2)}) was written as {hex(expected)} '
                                    f'but reads back as {got if isinstance(got, str) else hex(got)}')

# the same layout with only the far segment: the address is inside a segment but reads as garbage
writer = Writer(T / 'only_far.fjm', 8, FJMVersion.NormalVersion)
try:
    writer.add_simple_segment_with_data(256, [0x33, 0x44])
    writer.write_to_file()
    reader = Reader(T / 'only_far.fjm')
    try:
        if reader.get_word(256 * 8) != 0x33:
            problems.append('w=8 single far segment: wrong word')
    except FlipJumpException as e:
        problems.append(f'w=8, single segment [0x100, 0x102): word 0x100 is inside the segment but reading it raises '
                        f'{type(e).__name__}: {e}')
except (FlipJumpWriteFjmException, FlipJumpReadFjmException):
    pass

if problems:
    print(f'DEFECT ({len(problems)} mismatches); first ones:')
    for p in problems[:8]:
        print('  -', p)
    sys.exit(1)
print('ok')
sys.exit(0)
