import sys; sys.path.insert(0,'/repo')
from flipjump.interpreter import _fjcore
import resource
class E(Exception): pass
def rd(): return False
n=[0]
def wr(b):
    n[0]+=1
    if n[0]%7==0: raise ValueError('x')
w=32
words=[0,128,0,0]
for k in range(2,40): words += [2*w+(k&1),(k+1)*2*w]
words += [0,40*2*w]
before=resource.getrusage(resource.RUSAGE_SELF).ru_maxrss
for it in range(20000):
    m=_fjcore.Memory(w)
    m.add_segment(0,len(words)); m.set_words(0,words)
    try:
        m.run(rd,wr,E,last_ops_length=5)
    except ValueError:
        l=m.last_run_last_ops
        assert len(l)==5 or len(l)<=5, l
        l2=m.last_run_last_ops
        assert l==l2
    # a second run on the same object without a ring clears the list
    try:
        m.run(rd,wr,E)
    except ValueError:
        assert m.last_run_last_ops==[]
after=resource.getrusage(resource.RUSAGE_SELF).ru_maxrss
print('rss KB before/after', before, after, 'sample', l)
