import sys; sys.path.insert(0, '/repo')
import io, os, re, tempfile, contextlib, builtins
from pathlib import Path
import flipjump
from flipjump.fjm.fjm_writer import Writer
from flipjump.fjm.fjm_consts import FJMVersion
from flipjump.interpreter import fjm_run
from flipjump.interpreter.io_devices.FixedIO import FixedIO
from flipjump.interpreter.debugging.breakpoints import BreakpointHandler, get_breakpoint_handler

assert flipjump.__file__.startswith('/repo'), flipjump.__file__

TMP = Path(tempfile.mkdtemp(prefix='huntC_'))


def make_fjm(w, segments, name='p.fjm', version=FJMVersion.NormalVersion):
    """segments: list of (start_word, data_words, seg_len_words)"""
    path = TMP / name
    wr = Writer(path, w, version)
    for start, data, seg_len in segments:
        ds = wr.add_data(list(data))
        wr.add_segment(start, seg_len, ds, len(data))
    wr.write_to_file()
    return path


def run_plain(path, inp=b'', **kw):
    dev = FixedIO(inp)
    out = io.StringIO()
    with contextlib.redirect_stdout(out):
        try:
            ts = fjm_run.run(path, io_device=dev, **kw)
        except Exception as e:
            return ('EXC', type(e).__name__, str(e)[:100], repr(e.__cause__)[:200]), out.getvalue()
    return (dev.get_output(allow_incomplete_output=True), dev.bits_to_write_in_output_byte, dev.current_output_byte,
            str(ts.termination_cause), ts.op_counter), out.getvalue()


def run_debug(path, inp=b'', breakpoints=None, labels=None, script=()):
    """breakpoints: dict addr->None/label; script: list of command lines. returns (result, transcript)"""
    labels = labels or {}
    a2l = {}
    for l, a in labels.items():
        a2l.setdefault(a, l)
    bh = BreakpointHandler(dict(breakpoints or {}), a2l, dict(labels))
    dev = FixedIO(inp)
    out = io.StringIO()
    old_stdin = sys.stdin
    sys.stdin = io.StringIO(''.join(l + '\n' for l in script))
    try:
        with contextlib.redirect_stdout(out):
            try:
                ts = fjm_run.run(path, io_device=dev, breakpoint_handler=bh)
            except Exception as e:
                return ('EXC', type(e).__name__, str(e)[:100], repr(e.__cause__)[:200]), out.getvalue()
    finally:
        sys.stdin = old_stdin
    return (dev.get_output(allow_incomplete_output=True), dev.bits_to_write_in_output_byte, dev.current_output_byte,
            str(ts.termination_cause), ts.op_counter), out.getvalue()
