import sys, io, pathlib, tempfile, builtins, contextlib
sys.path.insert(0,'/repo')
import flipjump
from flipjump.interpreter.io_devices.FixedIO import FixedIO
d=pathlib.Path(tempfile.mkdtemp())
src=d/'p.fj'; src.write_text('stl.startup\nstl.output "A"\nstl.loop\nbig:\nrep(5000, i) stl.fj 0, big\n')
fjm=d/'p.fjm'; dbg=d/'p.dbg'
flipjump.assemble([src], fjm, debugging_file_path=dbg, print_time=False)
import json
def run(cmds):
    it=iter(cmds)
    bi=builtins.input
    builtins.input=lambda prompt='': next(it)
    try:
        io_dev=FixedIO(b'')
        try:
            st=flipjump.debug(fjm, dbg, breakpoints_addresses={0}, io_device=io_dev, print_time=False, print_termination=False)
            return ('ok', st.termination_cause, st.op_counter, io_dev.get_output(allow_incomplete_output=True))
        except BaseException as e:
            return ('RAISED', type(e).__name__, str(e)[:90], repr(e.__cause__)[:100])
    finally:
        builtins.input=bi
from flipjump.utils.functions import load_debugging_labels
labels=load_debugging_labels(dbg)
big=[k for k in labels if k.endswith('big')]
print(big[:3])
for name,cmds in [('h100',[f'r :h100:{big[0]}','c']), ('h4000',[f'r :h4000:{big[0]}','c']), ('b20000 idx',[f'r :b4800:0:{big[0]}','c'])]:
    out=io.StringIO()
    with contextlib.redirect_stdout(out):
        r=run(cmds)
    print(name, r)
