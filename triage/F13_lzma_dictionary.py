import sys; sys.path.insert(0,'/repo')
import lzma, os, random, tempfile, pathlib, time
from flipjump.fjm.fjm_writer import Writer
from flipjump.fjm.fjm_reader import Reader
from flipjump.fjm.fjm_consts import FJMVersion
random.seed(1)
w=64
n_words = (9*1024*1024)//8            # 9 MiB of incompressible words, then the first 64 KiB again
words=[random.getrandbits(64) for _ in range(n_words)]
words += words[:8192]
if len(words)%2: words.append(0)
for preset in (6,7,9):
    d=pathlib.Path(tempfile.mkdtemp()); p=d/'a.fjm'
    t=time.time()
    wr=Writer(p, w, FJMVersion.CompressedVersion, lzma_preset=preset)
    wr.add_simple_segment_with_data(0, list(words))
    wr.write_to_file()
    try:
        r=Reader(p)
        ok=all(r.get_word(i*w)==words[i] for i in (0,1,len(words)-1, n_words+5))
        print('preset',preset,'read ok',ok, round(time.time()-t,1),'s')
    except Exception as e:
        print('preset',preset,'READ FAILED:',type(e).__name__, str(e)[:100], '| cause', repr(e.__cause__)[:80])
