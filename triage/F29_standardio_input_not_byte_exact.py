import sys; sys.path.insert(0, '/repo')
"""
C17: StandardIO input is not byte-exact.
Feeds byte strings to a child process' stdin, reads them back bit-by-bit through
StandardIO.read_bit until IOReadOnEOF, repacks the bits LSB-first and compares with the input.
exit 1 when some input byte string is not returned exactly (defect present), 0 otherwise.
"""
import os
import subprocess

CHILD = r'''
import sys; sys.path.insert(0, '/repo')
import flipjump
assert flipjump.__file__.startswith('/repo'), flipjump.__file__
from flipjump.interpreter.io_devices.StandardIO import StandardIO
from flipjump.utils.exceptions import IOReadOnEOF
device = StandardIO(False)
bits = []
status = 'eof'
try:
    while True:
        bits.append(device.read_bit())
except IOReadOnEOF:
    pass
except Exception as e:
    status = 'exception:' + type(e).__name__
data = bytes(sum(bit << k for k, bit in enumerate(bits[i:i + 8])) for i in range(0, len(bits) - len(bits) % 8, 8))
sys.stderr.write('%s %d %s' % (status, len(bits), data.hex()))
'''

INPUTS = [b'abc', b'a\rb', b'x\r\ny', b'\xc3\xa9', b'\xe2\x82\xac', b'\xff', b'\x80\x81', bytes(range(256))]

env = {k: v for k, v in os.environ.items() if k not in ('PYTHONIOENCODING',)}
failures = []
for data in INPUTS:
    proc = subprocess.run(['/venv/bin/python', '-c', CHILD], input=data, capture_output=True, env=env, cwd='/repo')
    parts = proc.stderr.decode(errors='replace').split(' ')
    if len(parts) != 3:
        failures.append((data, 'child crashed: ' + proc.stderr.decode(errors='replace')[-300:]))
        continue
    status, bit_count, hex_data = parts
    got = bytes.fromhex(hex_data)
    if status != 'eof' or int(bit_count) != 8 * len(data) or got != data:
        shown = data if len(data) <= 8 else data[:8] + b'...'
        failures.append((shown, f'read {bit_count} bits ({status}) = {got[:12]!r}{"..." if len(got) > 12 else ""}, expected {8 * len(data)} bits'))

if failures:
    print('StandardIO.read_bit does not return the stdin bytes exactly:')
    for data, message in failures:
        print(f'  stdin {data!r}: {message}')
    sys.exit(1)
print('ok: StandardIO returned every input byte string exactly')
sys.exit(0)
