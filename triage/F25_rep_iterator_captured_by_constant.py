import sys; sys.path.insert(0, '/repo')
import io, contextlib, tempfile
from pathlib import Path
import flipjump
from flipjump.assembler import assembler
from flipjump.fjm.fjm_writer import Writer
from flipjump.fjm.fjm_reader import Reader
from flipjump.fjm.fjm_consts import FJMVersion
from flipjump.utils.exceptions import FlipJumpException


def image(text, w=64, version=1):
    """assemble one source text (no stl); return ('ok', {bit_address: word}) or ('rejected', message)."""
    d = Path(tempfile.mkdtemp(prefix='hunt_F_'))
    src = d / 'a.fj'
    src.write_text(text)
    out = d / 'a.fjm'
    try:
        with contextlib.redirect_stdout(io.StringIO()):
            assembler.assemble([('f1', src)], w, Writer(out, w, FJMVersion(version)), print_time=False)
    except FlipJumpException as e:
        return 'rejected', f'{type(e).__name__}: {str(e).strip().splitlines()[-1] if str(e).strip() else ""}'
    reader = Reader(out)
    return 'ok', {k * w: v for k, v in sorted(reader.memory.items())}


# rep(n, i) must be unrolled for i = 0..n-1; an iterator named like an earlier constant is silently replaced by the
# constant inside the rep's arguments (macro parameters / @-labels with such a name are refused by the parser).
MACRO = "def m x {\n ;x\n}\n"
cases = [
    ('user constant i', 64, "i = 7\n" + MACRO + "rep(3, i) m i\n"),
    ('built-in constant w', 32, MACRO + "rep(3, w) m w\n"),
]
UNROLLED = MACRO + "m 0\nm 1\nm 2\n"
bad = False
for name, w, text in cases:
    status, got = image(text, w)
    _, want = image(UNROLLED, w)
    if status == 'rejected':
        print(f'[{name}] rejected cleanly ({got}) - fine')
        continue
    if got != want:
        bad = True
        jumps = [got[a] for a in sorted(got) if (a // w) % 2 == 1]
        print(f'[{name}] DEFECT: rep(3, <iter>) m <iter> assembled jumps {jumps}, the unrolled program gives '
              f'{[want[a] for a in sorted(want) if (a // w) % 2 == 1]}')
sys.exit(1 if bad else 0)
