import os as _os; _os.makedirs("/tmp/fjverif-triage", exist_ok=True)  # scratch dir; remove after use
from pathlib import Path
from flipjump.fjm.fjm_writer import Writer
from flipjump.fjm.fjm_reader import Reader
from flipjump.fjm.fjm_consts import FJMVersion
p=Path('/tmp/fjverif-triage/w.fjm')
def t(name, f, v=FJMVersion.NormalVersion, w=16):
    try:
        wr=Writer(p,w,v); f(wr); wr.write_to_file()
    except Exception as e:
        print(name,'WRITE',type(e).__name__,e); return
    try:
        r=Reader(p); print(name,'READ ok',dict(r.memory),r.memory_segments)
    except Exception as e: print(name,'READ',type(e).__name__,e)
t('odd data_length', lambda wr:(wr.add_data([5]), wr.add_segment(0,2,0,1)))
t('data beyond pool', lambda wr: wr.add_segment(0,2,5,2))
t('word too big', lambda wr: wr.add_simple_segment_with_data(0,[1<<16,0]))
t('neg word', lambda wr: wr.add_simple_segment_with_data(0,[-1,0]))
t('neg word v2', lambda wr: wr.add_simple_segment_with_data(0,[0,-1]), v=FJMVersion.RelativeJumpVersion)
t('big jump v2', lambda wr: wr.add_simple_segment_with_data(0,[0,(1<<16)+5]), v=FJMVersion.RelativeJumpVersion)
t('seg start 2^64', lambda wr: wr.add_simple_segment_with_data(1<<64,[0,0]))
t('neg start', lambda wr: wr.add_simple_segment_with_data(-2,[0,0]))
t('shared data v1', lambda wr:(wr.add_data([1,2]), wr.add_segment(0,2,0,2), wr.add_segment(4,2,0,2)))
t('shared data v2', lambda wr:(wr.add_data([1,2]), wr.add_segment(0,2,0,2), wr.add_segment(4,2,0,2)), v=FJMVersion.RelativeJumpVersion)
t('neg data_start', lambda wr:(wr.add_data([1,2]), wr.add_segment(0,2,-2,2)))
