"""C10: a tiny version-3 (.fjm, lzma) file makes Reader allocate memory unrelated to the file's size
(and, with finite memory, die with MemoryError instead of the read-error exception) - even when the
segment table references none of the data or is invalid, i.e. before the file is accepted/rejected.

exit 1 = defect present, exit 0 = behaviour matches the property.
"""
import sys; sys.path.insert(0, '/repo')
import lzma, struct, subprocess, tempfile
from pathlib import Path
import flipjump
from flipjump.fjm.fjm_consts import _lzma_compression_filters

MiB = 1 << 20
T = Path(tempfile.mkdtemp())


def header(w, version, segment_num):
    return struct.pack('<HHQQ', 0x4A46, w, version, segment_num) + struct.pack('<QL', 0, 0)


def segment(*fields):
    return struct.pack('<QQQQ', *fields)


# one raw LZMA2 stream holding 16 MiB of zero bytes (~2.5 KB). lzma.decompress() (used by the Reader) keeps
# decoding concatenated streams, so repeating it N times expands to N*16 MiB.
unit = lzma.compress(bytes(16 * MiB), format=lzma.FORMAT_RAW, filters=_lzma_compression_filters(128, 6))

CHILD = r'''
import sys; sys.path.insert(0, '/repo')
import resource
from flipjump.fjm.fjm_reader import Reader
from flipjump.utils.exceptions import FlipJumpReadFjmException
limit = int(sys.argv[2])
if limit:
    resource.setrlimit(resource.RLIMIT_AS, (limit, limit))
def hwm():
    return int(next(l for l in open('/proc/self/status') if l.startswith('VmHWM')).split()[1]) // 1024
before = hwm()
try:
    r = Reader(sys.argv[1]); out = 'accepted'
except FlipJumpReadFjmException:
    out = 'rejected'
except BaseException as e:
    out = 'OTHER:' + type(e).__name__
print(out, hwm() - before)
'''


def read_in_child(file_bytes, limit):
    path = T / 'f.fjm'
    path.write_bytes(file_bytes)
    res = subprocess.run([sys.executable, '-c', CHILD, str(path), str(limit)], capture_output=True, text=True)
    outcome, grown = res.stdout.split()
    return outcome, int(grown)


failures = []

# (a) w=64, ONE segment with an odd start (the reader must reject this file) and no data reference at all;
#     payload expands to 128 MiB. how much memory does the Reader take before it says "rejected"?
# (b) w=64, ZERO segments (nothing in the payload is needed); same payload.
for name, table, nseg in (('invalid segment table', segment(1, 2, 0, 0), 1), ('no segments', b'', 0)):
    file_bytes = header(64, 3, nseg) + table + unit * 8
    outcome, grown = read_in_child(file_bytes, 0)
    print(f'[{name}] file of {len(file_bytes)} bytes -> {outcome}; Reader grew the process peak RSS by {grown} MiB')
    if outcome.startswith('OTHER') or grown > 100:
        failures.append(f'{name}: a {len(file_bytes)}-byte file cost {grown} MiB ({outcome})')

# (c) the same file with a 1.5 GiB expansion (~250 KB file) in a process whose address space is limited to 1 GiB:
#     the Reader must answer with an image or FlipJumpReadFjmException - never with another exception.
file_bytes = header(64, 3, 1) + segment(1, 2, 0, 0) + unit * 96
outcome, grown = read_in_child(file_bytes, 1024 * MiB)
print(f'[1 GiB address-space limit] file of {len(file_bytes)} bytes -> {outcome}')
if outcome.startswith('OTHER'):
    failures.append(f'a {len(file_bytes)}-byte file escaped the Reader with {outcome[6:]} (not FlipJumpReadFjmException)')

if failures:
    print('DEFECT: Reader allocation is unrelated to the .fjm file size / non-library exception escapes:')
    for f in failures:
        print('  -', f)
    sys.exit(1)
print('ok')
sys.exit(0)
