import sys; sys.path.insert(0,'/repo')
import flipjump, tempfile, pathlib, traceback
from flipjump.utils.exceptions import FlipJumpException
for src in (';1<<20000\n','x = 1<<20000\n;x\n','pad 0-(1<<20000)\n', 'segment 1<<20000\n', 'reserve 1<<20000\n', ';0\nwflip 0, 1<<20000\n', 'rep(1<<20000, i) m\ndef m {}\n'):
    d=pathlib.Path(tempfile.mkdtemp()); (d/'a.fj').write_text(src)
    try:
        flipjump.assemble([d/'a.fj'], d/'a.fjm', print_time=False, use_stl=False); print(repr(src),'assembled')
    except FlipJumpException as e:
        c=e.__cause__
        if c is None: print(repr(src), 'OK specific:', type(e).__name__, str(e)[:80].replace('\n',' ')); continue
        tb=traceback.extract_tb(c.__traceback__)
        print(repr(src), type(c).__name__, [(f.filename.split('/')[-1], f.lineno, f.name) for f in tb][-3:])
print('-----')
for src in (';(1<<20000)**(0-1)\n', 'x=(1<<20000)**(0-1)\n', ';0\nwflip 1<<20000, 1\n', ';0;1<<20000\n', 'def m a {;a}\nm 1<<20000\n','pad 1<<20000\n', ';0\nsegment 0-(1<<20000)\n', 'rep(0-(1<<20000), i) m\ndef m {}\n', ';((1<<20000)?1:2)+z\n'):
    d=pathlib.Path(tempfile.mkdtemp()); (d/'a.fj').write_text(src)
    try:
        flipjump.assemble([d/'a.fj'], d/'a.fjm', print_time=False, use_stl=False); print(repr(src),'assembled')
    except FlipJumpException as e:
        c=e.__cause__
        if 'Unknown exception' not in str(e): print(repr(src), 'OK specific:', type(e).__name__, str(e)[:70].replace('\n',' ')); continue
        tb=traceback.extract_tb(c.__traceback__)
        print(repr(src), 'GENERIC', type(c).__name__, [(f.filename.split('/')[-1], f.lineno, f.name) for f in tb][-3:])
