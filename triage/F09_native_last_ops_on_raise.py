import sys; sys.path.insert(0,"/repo")
import os as _os; _os.makedirs("/tmp/fjverif-triage", exist_ok=True)  # scratch dir; remove after use
import os
from pathlib import Path
from flipjump.fjm.fjm_writer import Writer
from flipjump.fjm.fjm_consts import FJMVersion
from flipjump.interpreter import fjm_run
from flipjump.interpreter.io_devices.IODevice import IODevice
from flipjump.interpreter.debugging.breakpoints import BreakpointHandler
w=32
p=Path('/tmp/fjverif-triage/b.fjm')
wr=Writer(p,w,FJMVersion.NormalVersion)
# op0: ;128   op1 (IO)   op2 at 128: output 0 -> 192 ; op3 at 192: output 1 -> 256; ... loop of outputs
words=[0,128, 0,0]
for k in range(2,40):
    words += [2*w + (k&1), (k+1)*2*w]
words += [0, 40*2*w]
wr.add_simple_segment_with_data(0,words)
wr.write_to_file()
class Dev(IODevice):
    def __init__(s,k,exc): s.n=0; s.k=k; s.exc=exc; s.bits=[]
    def read_bit(s): return False
    def write_bit(s,b):
        if s.n==s.k: raise s.exc
        s.n+=1; s.bits.append(b)
    def get_output(s,*,allow_incomplete_output=False): return b''
for env in ({'FLIPJUMP_NO_NATIVE':'1'},{}):
    for k in ('FLIPJUMP_NO_NATIVE','FLIPJUMP_NO_FLAT'): os.environ.pop(k,None)
    os.environ.update(env)
    d=Dev(5,KeyboardInterrupt())
    t=fjm_run.run(p,io_device=d,last_ops_debugging_list_length=4)
    print(env,t.termination_cause,t.op_counter,list(t.last_ops_addresses),len(d.bits))
class Boom(Exception): pass
for exc in (ValueError('x'),):
  for env in ({'FLIPJUMP_NO_NATIVE':'1'},{},{'FLIPJUMP_NO_FLAT':'1'}):
    for k in ('FLIPJUMP_NO_NATIVE','FLIPJUMP_NO_FLAT'): os.environ.pop(k,None)
    os.environ.update(env)
    d=Dev(5,exc)
    from flipjump.interpreter.fjm_run import RunStatistics
    try:
        t=fjm_run.run(p,io_device=d,last_ops_debugging_list_length=4)
        print(env,'returned',t.termination_cause)
    except Exception as e:
        print(env,'raised',type(e).__name__, str(e)[:160].replace('\n',' | '))
