import sys; sys.path.insert(0, '/repo')
import io, contextlib, tempfile
from pathlib import Path
import flipjump
from flipjump.assembler import assembler
from flipjump.fjm.fjm_writer import Writer
from flipjump.fjm.fjm_reader import Reader
from flipjump.fjm.fjm_consts import FJMVersion
from flipjump.utils.exceptions import FlipJumpException


def image(text, w=64, version=1):
    """assemble one source text (no stl); return ('ok', {bit_address: word}) or ('rejected', message)."""
    d = Path(tempfile.mkdtemp(prefix='hunt_F_'))
    src = d / 'a.fj'
    src.write_text(text)
    out = d / 'a.fjm'
    try:
        with contextlib.redirect_stdout(io.StringIO()):
            assembler.assemble([('f1', src)], w, Writer(out, w, FJMVersion(version)), print_time=False)
    except FlipJumpException as e:
        return 'rejected', f'{type(e).__name__}: {str(e).strip().splitlines()[-1] if str(e).strip() else ""}'
    reader = Reader(out)
    return 'ok', {k * w: v for k, v in sorted(reader.memory.items())}


# a label that is also a constant must be refused (tests/unit/test_parser.py::test_label_shadowing_a_constant_is_rejected),
# but only labels written at top level are checked: the same label declared by a macro (extern '>' label) is accepted and
# the one name then means the constant or the label depending on where the reference is parsed.
cases = [
    ('const first',
     "x = 5\ndef m > x {\n x:\n ;x\n}\n;0\nm\n;x\n",
     "x = 5\n;0\nx:\n;x\n;x\n"),
    ('const between references',
     "def m > x {\n x:\n ;0\n}\n;x\nx = 5\nm\n;x\n",
     ";x\nx = 5\nx:\n;0\n;x\n"),
]
bad = False
for name, macro_text, inlined_text in cases:
    ms, mi = image(macro_text)
    is_, ii = image(inlined_text)
    print(f'[{name}] inlined program: {is_} {ii if is_ == "rejected" else ""}')
    if ms == 'rejected':
        print(f'[{name}] macro program rejected too ({mi}) - fine')
        continue
    jumps = [mi[a] for a in sorted(mi) if (a // 64) % 2 == 1]
    if is_ == 'rejected' or mi != ii:
        bad = True
        print(f'[{name}] DEFECT: macro program accepted, jump words {[hex(j) for j in jumps]} '
              f'(the references to x resolve to the constant 5 and/or to the label declared by the macro)')
sys.exit(1 if bad else 0)
