import sys; sys.path.insert(0,'/repo')
import flipjump, tempfile, pathlib
from flipjump.utils.exceptions import FlipJumpException
d=pathlib.Path(tempfile.mkdtemp())
(d/'a.fj').write_text('x:\n;x' + '+1'*3000 + '\n')
try:
    flipjump.assemble([d/'a.fj'], d/'a.fjm', print_time=False, use_stl=False)
    print('assembled')
except FlipJumpException as e:
    print(type(e).__name__, str(e)[:120], '| cause', type(e.__cause__).__name__); print((d/'a.fjm').exists())
