import sys; sys.path.insert(0, '/repo')
import io, contextlib, tempfile
from pathlib import Path
import flipjump
from flipjump.assembler import assembler
from flipjump.fjm.fjm_writer import Writer
from flipjump.fjm.fjm_reader import Reader
from flipjump.fjm.fjm_consts import FJMVersion
from flipjump.utils.exceptions import FlipJumpException


def image(text, w=64, version=1):
    """assemble one source text (no stl); return ('ok', {bit_address: word}) or ('rejected', message)."""
    d = Path(tempfile.mkdtemp(prefix='hunt_F_'))
    src = d / 'a.fj'
    src.write_text(text)
    out = d / 'a.fjm'
    try:
        with contextlib.redirect_stdout(io.StringIO()):
            assembler.assemble([('f1', src)], w, Writer(out, w, FJMVersion(version)), print_time=False)
    except FlipJumpException as e:
        return 'rejected', f'{type(e).__name__}: {str(e).strip().splitlines()[-1] if str(e).strip() else ""}'
    reader = Reader(out)
    return 'ok', {k * w: v for k, v in sorted(reader.memory.items())}


# 'reserve 0' (literal or computed) at address 0 is an empty reserved range - a possible layout - but is refused with
# "Not enough space with the w-bits memory-width"; the same statement at any other address is accepted.
bad = False
for w in (8, 16, 32, 64):
    for version in (0, 1, 2, 3):
        for text in ("reserve 0\n;0\n", "n = 0\nreserve n*w\n;8\n", "segment 0\nreserve 0\nx:\n;x\n"):
            want = image(text.replace('reserve 0\n', '').replace('reserve n*w\n', ''), w, version)
            got = image(text, w, version)
            if got != want:
                bad = True
                print(f'[w={w} v={version}] DEFECT: {text!r} -> {got}; without the empty reserve -> {want}')
# sanity: the same statement elsewhere is fine
assert image(";0\nreserve 0\n;0\n")[0] == 'ok'
sys.exit(1 if bad else 0)
