import sys; sys.path.insert(0, '/repo')
# C14: a syntax error whose offending token is a NUMBER / STRING literal with a very large value
# (more than 4300 decimal digits) ends in the generic "Unknown exception ... please report this bug" failure:
# FJParser.error() formats token.value (an int) with an f-string -> ValueError (python's int->str limit).
import io, os, tempfile, contextlib
from pathlib import Path
import flipjump
from flipjump.assembler import assembler
from flipjump.fjm.fjm_writer import Writer
from flipjump.fjm.fjm_consts import FJMVersion
from flipjump.utils.exceptions import FlipJumpException

assert flipjump.__file__.startswith('/repo'), flipjump.__file__

SOURCES = {
    'hex literal (4000 digits) where no token is expected': ';1 0x' + 'f' * 4000 + '\n',
    'string literal (2000 chars) where no token is expected': ';1 "' + 'a' * 2000 + '"\n',
    'binary literal (16000 digits) after a label expression': 'x y 0b' + '1' * 16000 + ' z\n',
}

bad = []
for name, src in SOURCES.items():
    d = tempfile.mkdtemp(prefix='hA_f1_')
    p = Path(d) / 'a.fj'
    p.write_text(src)
    out = Path(d) / 'out.fjm'
    try:
        with contextlib.redirect_stdout(io.StringIO()):
            assembler.assemble([('f1', p)], 64, Writer(out, 64, FJMVersion.NormalVersion), print_time=False)
        bad.append(f'{name}: assembled successfully?!')
    except FlipJumpException as e:
        if 'Unknown exception' in str(e):
            bad.append(f'{name}: generic failure "{e}" caused by {e.__cause__!r}')
    except BaseException as e:
        bad.append(f'{name}: raw {type(e).__name__}: {e}')

if bad:
    print('DEFECT PRESENT (C14): a syntax error at a huge literal is not reported as a syntax error:')
    for b in bad:
        print('  -', b[:400])
    sys.exit(1)
print('ok: all were reported as specific parsing errors')
sys.exit(0)
