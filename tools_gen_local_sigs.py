"""regenerate fjverif/spec/local_sigs.json (the reference vocabulary of function locals, see fjverif/localnames.py) from the current
/repo tree. run after a legitimate change of /repo (e.g. a fix: commit) once all checks pass on it."""
import ast, json, sys
sys.path.insert(0, '/verif')
from fjverif.pyfacts import Repo
from fjverif import localnames as ln
repo = Repo()
out = {}
for rel in repo.py_files('flipjump'):
    out[rel] = ln.gen_py(ast.parse(repo.src(rel)))
try:
    from fjverif.localnames import gen_c
    out.update(gen_c(repo))
except ImportError:
    pass
ln.SPEC.write_text(json.dumps(out, indent=0, sort_keys=True))
print('functions:', sum(len(v) for v in out.values()), 'locals:', sum(len(e) for v in out.values() for es in v.values() for e in es))
