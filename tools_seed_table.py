"""print the markdown table of seeded changes (DESIGN.md section 10.5) from /verif/seeded/*/meta.json"""
import json, re
from pathlib import Path
# seeds that NO check caught on their first run, and the rule that was added / strengthened because of them
STRENGTHENED = {
    'C06_1': 'C06.OVERLAP (order-type enumeration of Writer._is_collision)',
    'C07_1': 'C01.PER-OP-STATE', 'C07_2': 'C01.PER-OP-STATE', 'C01_2': 'C01.PER-OP-STATE',
    'C14_1': 'C02.PAD-STATE + C14.ESCAPE list-store sites', 'C14_2': 'C02.PAD-STATE + C14.ESCAPE list-store sites',
    'C02_1': 'C02.PAD-STATE',
    'C18_2': 'C18.CFAIL (write_bit failure is never EOF; EOF-handler scope)',
    'C09_1': 'C09.SCRATCH (covered)', 'C05_1': 'C05.SCRATCH (init-first)', 'C07_3': 'C07.COPYIN (loop range / no early exit)',
    'C03_1': 'C03.SUBST-COMPLETE', 'C02_2': 'C02.FLUSH-ALL',
}
rows = []
for d in sorted(Path('/verif/seeded').iterdir()):
    mp = d / 'meta.json'
    if not mp.exists():
        continue
    m = json.loads(mp.read_text())
    prop = m.get('property')
    fired = m.get('checks_fired', {})
    rules = []
    for pid, v in fired.items():
        if v.get('exit') != 1:
            continue
        if pid == 'C15' and prop != 'C15' and all('C15.READONLY' in x for x in v.get('violated', [])):
            continue        # worktree predates the F04 fix commit: noise, not a detection
        for x in v.get('violated', []):
            r = re.search(r'violated: (\S+) @', x)
            if r and r.group(1) not in rules:
                rules.append(r.group(1))
    for r_ in m.get('fires_now', []):
        if r_ not in rules and not r_.startswith('ANALYSIS-ERROR'):
            rules.append(r_)
    STRENGTHENED.update(json.loads(Path('/verif/seeded/strengthened.json').read_text()) if Path('/verif/seeded/strengthened.json').exists() else {})
    NOT_CAUGHT = json.loads(Path('/verif/seeded/not_caught.json').read_text()) if Path('/verif/seeded/not_caught.json').exists() else {}
    first = 'missed' if d.name in STRENGTHENED or d.name in NOT_CAUGHT else 'caught'
    if d.name in NOT_CAUGHT:
        STRENGTHENED[d.name] = 'NOT CAUGHT (value-level; reason in seeded/not_caught.json)'
    summ = m.get('summary', '').replace('|', '/').replace('\n', ' ')
    summ = summ if len(summ) < 200 else summ[:197] + '...'
    rows.append(f"| {d.name} | {prop} | {summ} | {first} | {', '.join(rules) or '-'} | {STRENGTHENED.get(d.name, '')} |")
print('| seed | property | change | first run | rules that fire now | rule added / strengthened after the miss |')
print('|---|---|---|---|---|---|')
print('\n'.join(rows))
