"""re-run the checks on every stored seeded change (in memory, through the patch hunks) and report which still fire"""
import json, sys, importlib
from pathlib import Path
sys.path.insert(0, '/verif')
from fjverif.selftest import M, _apply
from fjverif.pyfacts import Repo
from fjverif.core import Report, AnalysisError, load_known_findings, _match_known
exec(open('/verif/tools_eq.py').read().split("wt = Path(sys.argv[1])")[0].split('"""', 2)[2])     # imports
import re, shutil, subprocess, tempfile
def patched_overlay(diff_path):
    """{rel: text} of the files the patch touches, with the patch applied to copies under a temporary directory (patch(1) places
    each hunk by its line numbers and context, so repeated text is no obstacle); None when it no longer applies to HEAD."""
    diff = Path(diff_path).read_text()
    rels = re.findall(r'^\+\+\+ b/(\S+)', diff, flags=re.M)
    with tempfile.TemporaryDirectory(prefix='fjverif-reseed-') as td:
        for rel in rels:
            dst = Path(td) / rel
            dst.parent.mkdir(parents=True, exist_ok=True)
            if (Path('/repo') / rel).exists():
                shutil.copy(Path('/repo') / rel, dst)
        r = subprocess.run(['patch', '-p1', '-s', '--no-backup-if-mismatch', '-F0', '-d', td, '-i', str(diff_path)], capture_output=True, text=True)
        if r.returncode != 0:
            return None
        return {rel: (Path(td) / rel).read_text() for rel in rels if (Path(td) / rel).exists()}
known = load_known_findings()
res = {}
only = set(a for a in sys.argv[1:] if not a.startswith('-'))          # optional: seed names to re-run
for d in sorted(Path('/verif/seeded').iterdir()):
    if not (d / 'patch.diff').exists() or (only and d.name not in only):
        continue
    meta = json.loads((d / 'meta.json').read_text())
    ov = patched_overlay(d / 'patch.diff')
    if ov is None:
        res[d.name] = 'STALE (the hunk context no longer matches HEAD)'
        continue
    fired = []
    for p in sorted(set([meta['property']] + meta.get('detected_by', []))):
        mod = importlib.import_module(f'fjverif.rules.{p.lower()}')
        rep = Report(p, 'quick')
        try:
            mod.check(rep, Repo(overlay=ov))
            new = [i for i in rep.instances if not i.ok and _match_known(i, p, known) is None]
            fired += [f'{i.rule}' for i in new]
        except AnalysisError as e:
            fired.append(f'ANALYSIS-ERROR({p}): {str(e)[:80]}')
    res[d.name] = sorted(set(fired)) or 'MISSED'
for k, v in res.items():
    print(k, v)
if '--record' in sys.argv:          # keep the rules that fire today next to the first-run record (used by tools_seed_table.py)
    for k, v in res.items():
        if isinstance(v, list):
            mp = Path('/verif/seeded') / k / 'meta.json'
            meta = json.loads(mp.read_text())
            meta['fires_now'] = v
            mp.write_text(json.dumps(meta, indent=1))
# seeds that stay undetected for a stated reason (value-level behaviour outside the technique) are listed in seeded/not_caught.json
nc = json.loads(Path('/verif/seeded/not_caught.json').read_text()) if Path('/verif/seeded/not_caught.json').exists() else {}
print('not caught (recorded with reason):', sorted(k for k, v in res.items() if v == 'MISSED' and k in nc))
print('stale:', [k for k, v in res.items() if isinstance(v, str) and v.startswith('STALE')])
print('missed:', [k for k, v in res.items() if v == 'MISSED' and k not in nc])
