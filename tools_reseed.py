"""re-run the checks on every stored seeded change (in memory, through the patch hunks) and report which still fire"""
import json, sys, importlib
from pathlib import Path
sys.path.insert(0, '/verif')
from fjverif.selftest import M, _apply
from fjverif.pyfacts import Repo
from fjverif.core import Report, AnalysisError, load_known_findings, _match_known
exec(open('/verif/tools_eq.py').read().split("wt = Path(sys.argv[1])")[0].split('"""', 2)[2])     # imports
def hunks(diff):
    edits = []; rel = None; old = []; new = []
    def flush():
        nonlocal old, new
        if rel and (old or new) and old != new:
            edits.append((rel, '\n'.join(old) + '\n', '\n'.join(new) + '\n'))
        old, new = [], []
    for line in diff.split('\n'):
        if line.startswith('diff --git'):
            flush(); rel = None
        elif line.startswith('+++ b/'):
            rel = line[6:]
        elif line.startswith('--- ') or line.startswith('index '):
            continue
        elif line.startswith('@@'):
            flush()
        elif rel is not None:
            if line.startswith(' '):
                old.append(line[1:]); new.append(line[1:])
            elif line.startswith('-'):
                old.append(line[1:])
            elif line.startswith('+'):
                new.append(line[1:])
    flush()
    return edits
known = load_known_findings()
res = {}
for d in sorted(Path('/verif/seeded').iterdir()):
    if not (d / 'patch.diff').exists():
        continue
    meta = json.loads((d / 'meta.json').read_text())
    eds = hunks((d / 'patch.diff').read_text())
    v = M(meta['property'], d.name, eds[0][0], eds[0][1], eds[0][2], 'x', also=eds[1:])
    ov = _apply(Repo(), v)
    if ov is None:
        res[d.name] = 'STALE (the hunk context no longer matches HEAD)'
        continue
    fired = []
    for p in sorted(set([meta['property']] + meta.get('detected_by', []))):
        mod = importlib.import_module(f'fjverif.rules.{p.lower()}')
        rep = Report(p, 'quick')
        try:
            mod.check(rep, Repo(overlay=ov))
            new = [i for i in rep.instances if not i.ok and _match_known(i, p, known) is None]
            fired += [f'{i.rule}' for i in new]
        except AnalysisError as e:
            fired.append(f'ANALYSIS-ERROR({p}): {str(e)[:80]}')
    res[d.name] = sorted(set(fired)) or 'MISSED'
for k, v in res.items():
    print(k, v)
# seeds that stay undetected for a stated reason (value-level behaviour outside the technique) are listed in seeded/not_caught.json
nc = json.loads(Path('/verif/seeded/not_caught.json').read_text()) if Path('/verif/seeded/not_caught.json').exists() else {}
print('not caught (recorded with reason):', sorted(k for k, v in res.items() if v == 'MISSED' and k in nc))
print('missed:', [k for k, v in res.items() if v == 'MISSED' and k not in nc])
