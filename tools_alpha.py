"""alpha-renaming fuzzer for the checks themselves: for every function of the analysed Python modules and of _fjcore.c, rename ALL its
locals consistently (behaviour-preserving by construction), run every check that reads the file on the edited source (in memory), and
report each rule that fires: a false alarm of a rule that is bound to a local's name.
usage: tools_alpha.py [--py] [--c] [--only <substring of function name>] [--jobs N]
Nothing in /repo is touched."""
import ast, importlib, json, re, sys, io
from concurrent.futures import ProcessPoolExecutor
from pathlib import Path
sys.path.insert(0, '/verif')
from fjverif.pyfacts import Repo
from fjverif.core import Report, AnalysisError, load_known_findings, _match_known

PROPS = [f'C{i:02d}' for i in range(1, 21)]
SUFFIX = '_rn'
PARAMS = '--params' in sys.argv          # rename parameters (of C static functions / private python functions) instead of locals
REWRITE = next((a[2:] for a in sys.argv if a in ('--flip', '--invert', '--name', '--all', '--commute', '--reorder')), None)   # other mechanical rewrites of python functions
SINGLE = '--single' in sys.argv          # one local at a time instead of all locals of a function at once


def files_read(prop):
    class Rec(Repo):
        def src(self, rel):
            seen.add(rel); return super().src(rel)
        def path(self, rel):
            seen.add(rel); return super().path(rel)
    seen = set()
    mod = importlib.import_module(f'fjverif.rules.{prop.lower()}')
    try:
        mod.check(Report(prop, 'quick'), Rec())
    except Exception as e:          # noqa: BLE001
        print('files_read', prop, e)
    return seen


from fjverif.selftest import alpha as _alpha
_alpha.SINGLE, _alpha.PARAMS = SINGLE, PARAMS
py_variants, c_variants, fj_variants = _alpha.py_variants, _alpha.c_variants, _alpha.fj_variants


def run_variant(args):
    rel, q, new_text, props = args
    known = load_known_findings()
    fired = []
    for p in props:
        mod = importlib.import_module(f'fjverif.rules.{p.lower()}')
        rep = Report(p, 'quick')
        try:
            mod.check(rep, Repo(overlay={rel: new_text}))
            fired += [f'{i.rule}@{i.construct}' for i in rep.instances if not i.ok and _match_known(i, p, known) is None]
        except AnalysisError as e:
            fired.append(f'ANALYSIS-ERROR({p}): {str(e)[:120]}')
        except Exception as e:      # noqa: BLE001
            fired.append(f'CRASH({p}): {type(e).__name__}: {str(e)[:100]}')
    return rel, q, sorted(set(fired))


if __name__ == '__main__':
    sel = [a for a in ('--py', '--c', '--fj') if a in sys.argv]
    do_py, do_c, do_fj = (not sel or '--py' in sel), (not sel or '--c' in sel), (not sel or '--fj' in sel)
    only = sys.argv[sys.argv.index('--only') + 1] if '--only' in sys.argv else None
    jobs = int(sys.argv[sys.argv.index('--jobs') + 1]) if '--jobs' in sys.argv else 14
    READS = {p: files_read(p) for p in PROPS}
    files = sorted({f for s in READS.values() for f in s})
    tasks = []
    repo = Repo()
    for rel in files:
        props = [p for p in PROPS if rel in READS[p]]
        if rel.endswith('.py') and do_py:
            gen = py_variants(rel, repo.src(rel)) if REWRITE is None else _alpha.py_rewrites(rel, repo.src(rel), REWRITE)
            for q, new in gen:
                if only is None or only in q:
                    tasks.append((rel, q, new, props))
        elif rel.endswith('.fj') and do_fj:
            for q, new in fj_variants(rel, repo.src(rel)):
                if only is None or only in q:
                    tasks.append((rel, q, new, props))
        elif rel.endswith('.c') and do_c:
            genc = c_variants(rel, repo.src(rel)) if REWRITE is None else _alpha.c_rewrites(rel, repo.src(rel), REWRITE)
            for q, new in genc:
                if only is None or only in q:
                    tasks.append((rel, q, new, props))
    print(f'{len(tasks)} renamed functions over {len(files)} files')
    bad = 0
    res = []
    with ProcessPoolExecutor(max_workers=jobs) as ex:
        for rel, q, fired in ex.map(run_variant, tasks, chunksize=2):
            if fired:
                bad += 1
                res.append((rel, q, fired))
                print(f'FALSE-ALARM {rel}:{q}')
                for f in fired[:6]:
                    print('     ', f[:260])
    print(f'functions with a name-bound rule firing: {bad} of {len(tasks)}')
    Path('/tmp/alpha_result.json').write_text(json.dumps(res, indent=1))
