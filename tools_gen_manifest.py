"""regenerates MANIFEST.json from the rule modules that exist (keeps it valid at all times)."""
import importlib, json, sys
from pathlib import Path
sys.path.insert(0, str(Path(__file__).parent))
ROOT = Path(__file__).parent
props = [json.loads(l) for l in (ROOT / 'properties.jsonl').read_text().splitlines() if l.strip()]
checks, na = [], []
for p in props:
    pid = p['id']
    try:
        mod = importlib.import_module(f'fjverif.rules.{pid.lower()}')
        meta = getattr(mod, 'MANIFEST')
    except Exception as e:
        na.append(dict(property_id=pid, reason=f'check not implemented yet in this commit ({type(e).__name__}); see DESIGN.md section 4 for the planned static rules'))
        continue
    checks.append(dict(
        property_id=pid,
        quick_cmd=f'/venv/bin/python -m fjverif check {pid} --tier quick',
        thorough_cmd=f'/venv/bin/python -m fjverif check {pid} --tier thorough',
        evidence_file=f'/verif/evidence/{pid}.json',
        replay_cmd_template='/venv/bin/python -m fjverif explain {path}',
        engine='fjverif',
        level_claimed=dict(category='other', text=meta['level_text'], design_ref=meta.get('design_ref', f'DESIGN.md section 4 {pid}')),
        level_note=meta['level_note'],
        technique=meta['technique'],
    ))
m = dict(
    version=1,
    setup_cmd='/venv/bin/python -m fjverif.setup',
    hooks=dict(guard='FLIPJUMP_VERIF', enable='none needed: no check executes repository code; the checks read /repo sources only',
               baseline_off_cmd='cd /repo && /venv/bin/python -m pytest -ra -q -p no:cacheprovider --timeout=900',
               source_commits=[], add_only=True),
    engines=[dict(name='fjverif', path='/verif/fjverif', serves_properties=[c['property_id'] for c in checks],
                  kind_free_text='repository-specific static analysis: Python ast + statement CFG/typestate/path-condition dataflow, clang JSON AST + goto-aware CFG for _fjcore.c, linear-form normaliser, own .fj front end; no repository code is imported or executed')],
    checks=checks,
    not_applicable=na,
    notes='All checks are static (technique family: static analysis). Exit 0 = all rule instances held or only KNOWN-FINDING entries of known_findings.json failed; 1 = VIOLATION; 2 = ANALYSIS-ERROR (fail closed).',
)
(ROOT / 'MANIFEST.json').write_text(json.dumps(m, indent=1) + '\n')
print('checks', [c['property_id'] for c in checks], 'n/a', len(na))
