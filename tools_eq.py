"""usage: tools_eq.py /tmp/eq_<area>
for every behaviour-preserving patch in <worktree>/_eq/patch_*.diff: turn its hunks into in-memory edits, run every
property check on the edited source, report any violation / analysis error (= a false alarm of the checker), and
register the patch as an equivalence variant (fjverif/selftest/equiv/<area>_<k>.json) for the properties that read
the touched files."""
import json, re, sys, importlib
from pathlib import Path
sys.path.insert(0, '/verif')
from fjverif.pyfacts import Repo
from fjverif.selftest import run_one, M

wt = Path(sys.argv[1]); area = wt.name.replace('eq_', '')
meta = {m['patch']: m for m in json.loads((wt / '_eq' / 'meta.json').read_text())} if (wt / '_eq' / 'meta.json').exists() else {}
PROPS = [f'C{i:02d}' for i in range(1, 21)]

def hunks(diff: str):
    edits = []; rel = None; old = []; new = []
    def flush():
        nonlocal old, new
        if rel and (old or new) and old != new:
            edits.append((rel, '\n'.join(old) + '\n', '\n'.join(new) + '\n'))
        old, new = [], []
    for line in diff.split('\n'):
        if line.startswith('diff --git'):
            flush(); rel = None
        elif line.startswith('+++ b/'):
            rel = line[6:]
        elif line.startswith('--- ') or line.startswith('index ') or line.startswith('new file') or line.startswith('deleted file'):
            continue
        elif line.startswith('@@'):
            flush()
        elif rel is not None:
            if line.startswith(' '):
                old.append(line[1:]); new.append(line[1:])
            elif line.startswith('-'):
                old.append(line[1:])
            elif line.startswith('+'):
                new.append(line[1:])
            elif line == '\\ No newline at end of file':
                pass
    flush()
    return edits

# files each property's check reads (recorded once on the clean tree)
def files_read(prop):
    class Rec(Repo):
        def src(self, rel):
            seen.add(rel); return super().src(rel)
        def path(self, rel):
            seen.add(rel); return super().path(rel)
    seen = set()
    from fjverif.core import Report
    mod = importlib.import_module(f'fjverif.rules.{prop.lower()}')
    try:
        mod.check(Report(prop, 'quick'), Rec())
    except Exception as e:
        print('files_read', prop, e)
    return seen
READS = {p: files_read(p) for p in PROPS}
outdir = Path('/verif/fjverif/selftest/equiv'); outdir.mkdir(exist_ok=True)
summary = []
def robust_edits(wt, pf):
    """(rel, old chunk, new chunk) edits computed from the patched files themselves (git apply in the worktree), with enough
    context for each old chunk to be unique and non-overlapping - independent of how the diff hunks were cut."""
    import difflib, subprocess
    subprocess.run(['git', 'checkout', '--', '.'], cwd=wt, capture_output=True)
    r = subprocess.run(['git', 'apply', str(pf)], cwd=wt, capture_output=True, text=True)
    if r.returncode != 0:
        return None
    files = subprocess.run(['git', 'diff', '--name-only'], cwd=wt, capture_output=True, text=True).stdout.split()
    eds = []
    for rel in files:
        new = (wt / rel).read_text()
        old = subprocess.run(['git', 'show', f'HEAD:{rel}'], cwd=wt, capture_output=True, text=True).stdout
        a, b = old.split('\n'), new.split('\n')
        blocks = [op for op in difflib.SequenceMatcher(None, a, b, autojunk=False).get_opcodes() if op[0] != 'equal']
        merged = []
        for tag, i1, i2, j1, j2 in blocks:
            ctx = 3
            lo_a, hi_a, lo_b, hi_b = max(0, i1 - ctx), min(len(a), i2 + ctx), max(0, j1 - (i1 - max(0, i1 - ctx))), min(len(b), j2 + (min(len(a), i2 + ctx) - i2))
            if merged and lo_a <= merged[-1][1]:
                merged[-1] = [merged[-1][0], hi_a, merged[-1][2], hi_b]
            else:
                merged.append([lo_a, hi_a, lo_b, hi_b])
        for lo_a, hi_a, lo_b, hi_b in merged:
            while True:
                oc = '\n'.join(a[lo_a:hi_a])
                if old.count(oc) == 1 or (lo_a == 0 and hi_a == len(a)):
                    break
                if lo_a > 0:
                    lo_a -= 1; lo_b -= 1
                if hi_a < len(a):
                    hi_a += 1; hi_b += 1
            eds.append((rel, '\n'.join(a[lo_a:hi_a]), '\n'.join(b[lo_b:hi_b])))
    subprocess.run(['git', 'checkout', '--', '.'], cwd=wt, capture_output=True)
    return eds


for pf in sorted((wt / '_eq').glob('patch_*.diff')):
    eds = robust_edits(wt, pf) or hunks(pf.read_text())
    if not eds:
        print(pf.name, 'no edits parsed'); continue
    k = re.search(r'patch_(\w+)\.diff', pf.name).group(1)
    name = f'EQ[{area}_{k}] ' + meta.get(pf.name, {}).get('kind', '')[:60]
    touched = {e[0] for e in eds}
    relevant = [p for p in PROPS if touched & READS[p]]
    bad = []
    for p in PROPS:
        v = M(p, name, eds[0][0], eds[0][1], eds[0][2], None, also=eds[1:])
        r = run_one(v)
        if r['status'] not in ('SILENT-OK',):
            bad.append((p, r['status'], r['detail'][:300]))
    rec = dict(name=name, area=area, patch=pf.name, kind=meta.get(pf.name, {}).get('kind', ''), where=meta.get(pf.name, {}).get('where', ''),
               why_equivalent=meta.get(pf.name, {}).get('why_equivalent', ''), props=relevant, edits=[list(e) for e in eds])
    (outdir / f'{area}_{k}.json').write_text(json.dumps(rec, indent=1))
    summary.append((pf.name, relevant, bad))
    print(f'{pf.name}: touches {sorted(touched)}; relevant props {relevant}')
    for b in bad:
        print('    ', b)
print('patches:', len(summary), 'with problems:', sum(1 for s in summary if s[2]))
