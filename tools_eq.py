"""usage: tools_eq.py /tmp/eq_<area>
for every behaviour-preserving patch in <worktree>/_eq/patch_*.diff: turn its hunks into in-memory edits, run every
property check on the edited source, report any violation / analysis error (= a false alarm of the checker), and
register the patch as an equivalence variant (fjverif/selftest/equiv/<area>_<k>.json) for the properties that read
the touched files."""
import json, re, sys, importlib
from pathlib import Path
sys.path.insert(0, '/verif')
from fjverif.pyfacts import Repo
from fjverif.selftest import run_one, M

wt = Path(sys.argv[1]); area = wt.name.replace('eq_', '')
meta = {m['patch']: m for m in json.loads((wt / '_eq' / 'meta.json').read_text())} if (wt / '_eq' / 'meta.json').exists() else {}
PROPS = [f'C{i:02d}' for i in range(1, 21)]

def hunks(diff: str):
    edits = []; rel = None; old = []; new = []
    def flush():
        nonlocal old, new
        if rel and (old or new) and old != new:
            edits.append((rel, '\n'.join(old) + '\n', '\n'.join(new) + '\n'))
        old, new = [], []
    for line in diff.split('\n'):
        if line.startswith('diff --git'):
            flush(); rel = None
        elif line.startswith('+++ b/'):
            rel = line[6:]
        elif line.startswith('--- ') or line.startswith('index ') or line.startswith('new file') or line.startswith('deleted file'):
            continue
        elif line.startswith('@@'):
            flush()
        elif rel is not None:
            if line.startswith(' '):
                old.append(line[1:]); new.append(line[1:])
            elif line.startswith('-'):
                old.append(line[1:])
            elif line.startswith('+'):
                new.append(line[1:])
            elif line == '\\ No newline at end of file':
                pass
    flush()
    return edits

# files each property's check reads (recorded once on the clean tree)
def files_read(prop):
    class Rec(Repo):
        def src(self, rel):
            seen.add(rel); return super().src(rel)
        def path(self, rel):
            seen.add(rel); return super().path(rel)
    seen = set()
    from fjverif.core import Report
    mod = importlib.import_module(f'fjverif.rules.{prop.lower()}')
    try:
        mod.check(Report(prop, 'quick'), Rec())
    except Exception as e:
        print('files_read', prop, e)
    return seen
READS = {p: files_read(p) for p in PROPS}
outdir = Path('/verif/fjverif/selftest/equiv'); outdir.mkdir(exist_ok=True)
summary = []
for pf in sorted((wt / '_eq').glob('patch_*.diff')):
    eds = hunks(pf.read_text())
    if not eds:
        print(pf.name, 'no edits parsed'); continue
    k = re.search(r'patch_(\w+)\.diff', pf.name).group(1)
    name = f'EQ[{area}_{k}] ' + meta.get(pf.name, {}).get('kind', '')[:60]
    touched = {e[0] for e in eds}
    relevant = [p for p in PROPS if touched & READS[p]]
    bad = []
    for p in PROPS:
        v = M(p, name, eds[0][0], eds[0][1], eds[0][2], None, also=eds[1:])
        r = run_one(v)
        if r['status'] not in ('SILENT-OK',):
            bad.append((p, r['status'], r['detail'][:300]))
    rec = dict(name=name, area=area, patch=pf.name, kind=meta.get(pf.name, {}).get('kind', ''), where=meta.get(pf.name, {}).get('where', ''),
               why_equivalent=meta.get(pf.name, {}).get('why_equivalent', ''), props=relevant, edits=[list(e) for e in eds])
    (outdir / f'{area}_{k}.json').write_text(json.dumps(rec, indent=1))
    summary.append((pf.name, relevant, bad))
    print(f'{pf.name}: touches {sorted(touched)}; relevant props {relevant}')
    for b in bad:
        print('    ', b)
print('patches:', len(summary), 'with problems:', sum(1 for s in summary if s[2]))
