import json,sys
from pathlib import Path
sys.path.insert(0,'/verif/probes')
from flipjump.assembler.fj_parser import parse_macro_tree
from flipjump.utils.functions import get_file_tuples
macros=parse_macro_tree(get_file_tuples([],no_stl=False),64,True)
theirs=sorted([m.name,m.parameter_num] for m in macros if m.name)
mine=json.load(open('/verif/probes/mine.json'))
print(len(theirs),len(mine), theirs==mine)
s1=set(map(tuple,theirs)); s2=set(map(tuple,mine))
print('only theirs',sorted(s1-s2)[:10]); print('only mine',sorted(s2-s1)[:10])
# body-length compare
import fjfront_probe as fp
allm={}
for t,pth in get_file_tuples([],no_stl=False):
    allm.update(fp.parse_file(pth).macros)
bad=0
for m,mac in macros.items():
    if not m.name: continue
    mine_body=allm[(m.name,m.parameter_num)]['body']
    if len(mine_body)!=len(mac.ops): bad+=1; print('body len differs',m, len(mine_body), len(mac.ops))
    if allm[(m.name,m.parameter_num)]['params']!=mac.params or allm[(m.name,m.parameter_num)]['local']!=mac.local_params: bad+=1; print('params differ',m)
print('bad',bad)
# call targets compare
from flipjump.assembler.inner_classes.ops import MacroCall, RepCall
d=0
for m,mac in macros.items():
    if not m.name: continue
    theirs_calls=[(op.macro_name.name,op.macro_name.parameter_num) for op in mac.ops if isinstance(op,(MacroCall,RepCall))]
    mine_calls=[(op[1],len(op[2])) if op[0]=='call' else (op[3],len(op[4])) for op in allm[(m.name,m.parameter_num)]['body'] if op[0] in('call','rep')]
    if theirs_calls!=mine_calls: d+=1; print('calls differ',m,theirs_calls[:3],mine_calls[:3])
print('call diffs',d)
