"""throwaway probe of FJ.EXTENT: bit-offset footprints per (macro, param) by bounded instantiation."""
import sys, json, re, itertools
sys.path.insert(0,'/verif/probes')
import fjfront_probe as fp
files=['/repo/flipjump/stl/'+x+'.fj' for x in json.load(open('/repo/flipjump/stl/conf.json'))['all']]
M={}; docs={}
for f in files:
    p=fp.parse_file(f); M.update(p.macros)
    lines=open(f).read().split('\n')
    for k,m in p.macros.items():
        # doc block: contiguous comment lines above def line
        i=m['line']-2; blk=[]
        while i>=0 and lines[i].strip().startswith('//'): blk.append(lines[i].strip()); i-=1
        docs[k]=blk[::-1]
class NeedConcrete(Exception):
    def __init__(s,name): s.name=name
W=64
def ev(e,env):
    """returns linear form: dict sym->coeff plus '' -> const.  env: name -> int | ('sym',name)"""
    if isinstance(e,int): return {'':e}
    t=e[0]
    if t=='id':
        n=e[1]
        if n in env:
            v=env[n]
            return {'':v} if isinstance(v,int) else dict(v)
        return {n:1}   # unknown label/global: symbolic
    if t=='neg': a=ev(e[1],env); return {k:-v for k,v in a.items()}
    if t in('~','#'):
        a=conc(ev(e[1],env)); return {'': (~a if t=='~' else a.bit_length())}
    if t=='?:':
        c=conc(ev(e[1],env)); return ev(e[2] if c else e[3],env)
    a=ev(e[1],env); b=ev(e[2],env)
    if t=='+': return add(a,b,1)
    if t=='-': return add(a,b,-1)
    if t=='*':
        if isconst(a): return {k:v*a.get('',0) for k,v in b.items()}
        if isconst(b): return {k:v*b.get('',0) for k,v in a.items()}
        raise NeedConcrete(sym(a) or sym(b))
    x=conc(a); y=conc(b)
    import operator
    f={'/':operator.floordiv,'%':operator.mod,'<<':operator.lshift,'>>':operator.rshift,'&':operator.and_,'|':operator.or_,'^':operator.xor,
       '<':lambda p,q:int(p<q),'>':lambda p,q:int(p>q),'<=':lambda p,q:int(p<=q),'>=':lambda p,q:int(p>=q),'==':lambda p,q:int(p==q),'!=':lambda p,q:int(p!=q),
       '&&':lambda p,q:int(bool(p and q)),'||':lambda p,q:int(bool(p or q)),'**':operator.pow}[t]
    return {'':f(x,y)}
def add(a,b,s):
    r=dict(a)
    for k,v in b.items(): r[k]=r.get(k,0)+s*v
    return {k:v for k,v in r.items() if v!=0 or k==''}
def isconst(a): return all(k=='' for k in a)
def sym(a):
    for k in a:
        if k!='': return k
def conc(a):
    if not isconst(a):
        # equality-like comparisons between different symbols: treat as unknown -> NeedConcrete
        raise NeedConcrete(sym(a))
    return a.get('',0)
BASE={'w':W,'dw':2*W,'dbit':W+W.bit_length()}
memo={}
def footprint(key, sizes, depth=0):
    """sizes: tuple of (param,value) for size-like params. returns dict param -> set(bit offsets) ; raises NeedConcrete(param)"""
    mk=(key,sizes)
    if mk in memo: return memo[mk]
    if depth>60: return {}
    m=M[key]; env=dict(BASE)
    for p in m['params']: env[p]={p:1}
    for p,v in sizes: env[p]=v
    fpnt={p:set() for p in m['params']}
    def touch(lf,extra=0):
        syms=[k for k in lf if k!='']
        if len(syms)==1 and lf[syms[0]]==1 and syms[0] in fpnt:
            fpnt[syms[0]].add(lf.get('',0)+extra)
    def do_ops(body,env):
        for op in body:
            t=op[0]
            if t=='fj':
                f=op[1]
                if f is not None and f!=0: touch(ev(f,env))
                if op[2] is not None: touch(ev(op[2],env))
            elif t=='wflip':
                a=op[1]; touch(ev(a[0],env))
                if len(a)>2: touch(ev(a[2],env))
            elif t=='call':
                do_call(op[1],op[2],env)
            elif t=='rep':
                n=conc(ev(op[1],env))
                for i in range(max(n,0)):
                    e2=dict(env); e2[op[2]]=i
                    do_call(op[3],op[4],e2)
    def do_call(name,args,env):
        ck=(name,len(args))
        if ck not in M: return
        cal=M[ck]
        vals=[ev(a,env) for a in args]
        # iterate: find size-like params of callee on demand
        csz={}
        while True:
            try:
                sub=footprint(ck,tuple(sorted(csz.items())),depth+1); break
            except NeedConcrete as nc:
                if nc.name not in cal['params']: raise
                idx=cal['params'].index(nc.name)
                csz[nc.name]=conc(vals[idx])   # may raise NeedConcrete(our param)
        for q,offs in sub.items():
            if q in csz: continue
            lf=vals[cal['params'].index(q)]
            for o in offs: touch(lf,o)
    do_ops(m['body'],env)
    memo[mk]=fpnt
    return fpnt
def doc_extents(key):
    res={}
    for line in docs[key]:
        body=line[2:]
        tm=re.match(r'\s*([\w, /]+?)\s+(?:is|are)\s+(?:an?\s+|both\s+)?(?:signed\s+)?(?:bit|hex)(?:\.vec)?\[:([^\]]+)\]',body)
        if tm:
            for nm in re.split(r'[,/ ]+',tm.group(1)):
                if nm in M[key]['params']: res.setdefault(nm,set()).add(tm.group(2))
            continue
        if not body.startswith('   '): continue
        if re.search(r'\b(is|are)\b',body): continue
        for nm,E in re.findall(r'(?<![\w.*])([A-Za-z_]\w*)\[:([^\]]+)\]',body):
            if nm in M[key]['params']: res.setdefault(nm,set()).add(E)
    return res
def parse_E(E):
    E=re.sub(r'(\d)\s*([A-Za-z_])',r'\1*\2',E)
    toks,_=fp.lex(E); p=fp.P(toks,{}, 'doc'); return p.expr()
ok=bad=skip=0; bads=[]
for key in M:
    de=doc_extents(key)
    if not de: continue
    # discover size-like params
    sizes={}
    for attempt in range(8):
        try:
            footprint(key,tuple(sorted(sizes.items()))); break
        except NeedConcrete as nc:
            if nc.name in M[key]['params']: sizes[nc.name]=2
            else: sizes=None; why=('nonparam',nc.name); break
        except Exception as e: sizes=None; why=('exc',repr(e)[:80]); break
    if sizes is None: skip+=1; print('SKIP',key,why); continue
    names=sorted(sizes)
    for combo in itertools.product([1,2,3,5],repeat=len(names)):
        sz=tuple(zip(names,combo))
        try: fpn=footprint(key,sz)
        except Exception as e: skip+=1; print('SKIP2',key,sz,repr(e)[:100]); break
        env=dict(BASE); env.update(dict(sz))
        for p,Es in de.items():
            if p in dict(sz): continue
            for E in Es:
                try: want=conc(ev(parse_E(E),env))
                except Exception as e: skip+=1; print('SKIP3',key,p,E,repr(e)[:60]); continue
                cells={o//(2*W) for o in fpn[p]}
                if not cells: skip+=1; print('SKIP4 nocells',key,p,E); continue
                got=(min(cells),max(cells)+1)
                if got[0]>=0 and got[1]<=want and (got[1]==want): ok+=1
                else: bad+=1; bads.append((key,p,E,dict(sz),got,want))
print('ok',ok,'bad',bad,'skip',skip)
seen=set()
for b in bads:
    if (b[0],b[1]) in seen: continue
    seen.add((b[0],b[1])); print(b)
