"""throwaway probe: goto-aware CFG over clang JSON AST + C01.ORDER typestate + C07.CACHE on _fjcore.c"""
import json, subprocess, sys, sysconfig, bisect, collections
SRC='/repo/flipjump/interpreter/_fjcore.c'
inc=sysconfig.get_paths()['include']
raw=subprocess.run(['clang','-fsyntax-only','-I'+inc,'-Xclang','-ast-dump=json',SRC],capture_output=True,text=True,check=True).stdout
tu=json.loads(raw)
text=open(SRC).read()
linestarts=[0]+[i+1 for i,c in enumerate(text) if c=='\n']
def line_of(n):
    r=n.get('range',{}).get('begin',{})
    off=r.get('offset', r.get('expansionLoc',{}).get('offset'))
    if off is None: return -1
    return bisect.bisect_right(linestarts,off)
def src_of(n):
    r=n.get('range',{}); b=r.get('begin',{}); e=r.get('end',{})
    bo=b.get('offset', b.get('expansionLoc',{}).get('offset')); eo=e.get('offset', e.get('expansionLoc',{}).get('offset')); tl=e.get('tokLen', e.get('expansionLoc',{}).get('tokLen',1))
    if bo is None or eo is None: return '?'
    return ' '.join(text[bo:eo+tl].split())
funcs={}
def in_main(n):
    # function decls from main file: those whose body text offsets are inside file & name known
    return True
for n in tu['inner']:
    if n.get('kind')=='FunctionDecl' and any(c.get('kind')=='CompoundStmt' for c in n.get('inner',[])):
        funcs[n['name']]=n
class CFG:
    def __init__(s): s.nodes=[]; s.succ=collections.defaultdict(list)
    def new(s,kind,ast=None,**kw):
        s.nodes.append(dict(id=len(s.nodes),kind=kind,ast=ast,**kw)); return len(s.nodes)-1
    def edge(s,a,b,lab=None): s.succ[a].append((b,lab))
CONTROL={'CompoundStmt','IfStmt','ForStmt','DoStmt','WhileStmt','SwitchStmt','GotoStmt','LabelStmt','ReturnStmt','ContinueStmt','BreakStmt','CaseStmt','DefaultStmt','NullStmt'}
def build_cfg(fn):
    g=CFG(); body=[c for c in fn['inner'] if c.get('kind')=='CompoundStmt'][0]
    labels={}
    def collect(n):
        if n.get('kind')=='LabelStmt': labels[n['declId']]=g.new('label',n,name=n['name'])
        for c in n.get('inner',[]): collect(c)
    collect(body)
    EXIT=g.new('exit')
    def build(s,nxt,brk,cont):
        """returns entry node of statement s, flowing to nxt afterwards"""
        k=s.get('kind')
        if not k: return nxt
        if k=='CompoundStmt':
            cur=nxt
            for c in reversed(s.get('inner',[])): cur=build(c,cur,brk,cont)
            return cur
        if k=='IfStmt':
            inner=s['inner']; cond=inner[0]; then=inner[1]; els=inner[2] if len(inner)>2 else None
            c=g.new('cond',cond)
            g.edge(c,build(then,nxt,brk,cont),'T'); g.edge(c,build(els,nxt,brk,cont) if els else nxt,'F'); return c
        if k=='ForStmt':
            init,condvar,cond,incr,bod=s['inner']
            head=g.new('join',None,name='for-head')
            incn=build(incr,head,brk,cont) if incr.get('kind') else head
            if cond.get('kind'):
                c=g.new('cond',cond); g.edge(head,c); g.edge(c,build(bod,incn,nxt,incn),'T'); g.edge(c,nxt,'F')
            else:
                g.edge(head,build(bod,incn,nxt,incn))
            return build(init,head,brk,cont) if init.get('kind') else head
        if k=='WhileStmt':
            cond,bod=s['inner'][-2:]
            c=g.new('cond',cond); g.edge(c,build(bod,c,nxt,c),'T'); g.edge(c,nxt,'F'); return c
        if k=='DoStmt':
            bod,cond=s['inner']
            c=g.new('cond',cond); head=g.new('join',None,name='do-head')
            g.edge(head,build(bod,c,nxt,c)); g.edge(c,head,'T'); g.edge(c,nxt,'F'); return head
        if k=='SwitchStmt':
            cond=s['inner'][0]; bod=s['inner'][-1]
            sw=g.new('switch',cond)
            # body: sequence of case/default stmts with fallthrough
            stmts=bod.get('inner',[]); cur=nxt; entries=[]
            for c in reversed(stmts):
                cur=build(c,cur,nxt,cont)
                if c.get('kind') in('CaseStmt','DefaultStmt'): entries.append((cur,c))
            for e,c in entries: g.edge(sw,e,'case')
            if not any(c.get('kind')=='DefaultStmt' for _,c in entries): g.edge(sw,nxt,'nodefault')
            return sw
        if k in('CaseStmt','DefaultStmt'):
            return build(s['inner'][-1],nxt,brk,cont)
        if k=='LabelStmt':
            l=labels[s['declId']]; g.edge(l,build(s['inner'][0],nxt,brk,cont)); return l
        if k=='GotoStmt':
            n=g.new('goto',s); g.edge(n,labels[s['targetLabelDeclId']]); return n
        if k=='ReturnStmt':
            n=g.new('return',s); g.edge(n,EXIT); return n
        if k=='ContinueStmt':
            n=g.new('continue',s); g.edge(n,cont); return n
        if k=='BreakStmt':
            n=g.new('break',s); g.edge(n,brk); return n
        if k=='NullStmt': return nxt
        n=g.new('stmt',s); g.edge(n,nxt); return n
    g.entry=build(body,EXIT,None,None); g.exit=EXIT; g.labels={g.nodes[v]['name']:v for v in labels.values()}
    return g
def walk(n):
    yield n
    for c in n.get('inner',[]): yield from walk(c)
def calls(n): return [c for c in walk(n) if c.get('kind')=='CallExpr']
def callee(c):
    for x in walk(c['inner'][0]):
        if x.get('kind')=='DeclRefExpr': return x['referencedDecl']['name']
def strip(n):
    while n.get('kind') in('ImplicitCastExpr','ParenExpr','CStyleCastExpr'): n=n['inner'][0]
    return n
def names(n): return {x['referencedDecl']['name'] for x in walk(n) if x.get('kind')=='DeclRefExpr'}
def members(n): return {x['name'] for x in walk(n) if x.get('kind')=='MemberExpr'}
# ---------- event classification (C01.ORDER)
def classify(node):
    a=node['ast']
    if node['kind'] not in('stmt','cond') or a is None: return []
    ev=[]; s=src_of(a)
    for c in calls(a):
        cn=callee(c); args=[src_of(x) for x in c['inner'][1:]]
        if cn=='mem_get_word_unaligned': ev.append('FETCH_FLIP' if args[1]=='ip' else 'FETCH_JUMP' if args[1]=='ip + width' else 'FETCH_?')
        elif cn=='mem_read_word': ev.append('FETCH_FLIP' if args[1]=='word_address' else 'FETCH_JUMP' if args[1] in('(ip >> ww) + 1','word_address + 1') else 'FETCH_?')
        elif cn=='PyObject_CallFunctionObjArgs' and args[0]=='write_bit': ev.append('OUTPUT')
        elif cn=='PyObject_CallNoArgs' and args[0]=='read_bit': ev.append('INPUT')
        elif cn=='mem_write_bit': ev.append('INPUT_STORE')
        elif cn=='mem_flip_bit': ev.append('FLIP')
        elif cn=='PyErr_CheckSignals': ev.append('SIGNAL')
    a0=strip(a) if node['kind']=='stmt' else a
    if a0.get('kind')=='BinaryOperator' and a0.get('opcode')=='=':
        lhs,rhs=a0['inner']; L=src_of(lhs); R=src_of(rhs)
        if L=='f' and ('flat[' in R or 'op_words[' in R): ev.append('FETCH_FLIP')
        if L=='j' and ('flat[' in R or 'op_words[' in R or R=='*op_flat_jump'): ev.append('FETCH_JUMP')
        if L.startswith('flat[') and '^' in R: ev.append('FLIP')
        if L.startswith('last_ops_ring['): ev.append('RECORD_IP')
        if L=='ip' and R=='j': ev.append('JUMP')
    if a0.get('kind')=='CompoundAssignOperator' and a0.get('opcode')=='^=' and 'page_cache_words' in s: ev.append('FLIP')
    if a0.get('kind')=='UnaryOperator' and a0.get('opcode')=='++' and src_of(a0['inner'][0])=='ops': ev.append('COUNT')
    return ev
ORDER=['START','RECORD_IP','FETCH_FLIP','OUTPUT','INPUT','INPUT_STORE','FLIP','FETCH_JUMP','COUNT','JUMP']
ALLOWED={  # event -> set of predecessor states
 'RECORD_IP':{'START'}, 'FETCH_FLIP':{'START','RECORD_IP'}, 'OUTPUT':{'FETCH_FLIP'}, 'INPUT':{'FETCH_FLIP','OUTPUT'}, 'INPUT_STORE':{'INPUT'},
 'FLIP':{'FETCH_FLIP','OUTPUT','INPUT_STORE'}, 'FETCH_JUMP':{'FLIP'}, 'COUNT':{'FETCH_JUMP'}, 'JUMP':{'COUNT'}}
def typestate(g,head,fname):
    """head: node id of per-op loop head (do-head). states reset to START there (incoming must be START/JUMP)."""
    st=collections.defaultdict(set); st[g.entry].add('START'); work=[g.entry]; problems=[]; evcount=collections.Counter()
    while work:
        n=work.pop(); node=g.nodes[n]; cur=set(st[n])
        if n==head:
            bad=cur-{'START','JUMP'}
            if bad: problems.append((line_of(node['ast']) if node['ast'] else 0,'loop head reached in states',bad))
            cur={'START'}
        for e in classify(node):
            if e=='SIGNAL': continue
            evcount[e]+=1
            bad={s for s in cur if s not in ALLOWED.get(e,set())}
            if bad: problems.append((line_of(node['ast']),e,'from',sorted(bad),src_of(node['ast'])[:60]))
            cur={e}
        for (m,lab) in g.succ[n]:
            if not cur<=st[m]:
                st[m]|=cur; work.append(m)
    return problems,evcount,st
def find_head(g,name='do-head'):
    return [n['id'] for n in g.nodes if n['kind']=='join' and n.get('name')==name]
for fname in ('run_flat_loop_impl','run_paged_loop_impl','run_measured_loop'):
    g=build_cfg(funcs[fname])
    heads=find_head(g) or find_head(g,'for-head')
    probs,cnt,st=typestate(g,heads[0],fname)
    print(fname,'nodes',len(g.nodes),'labels',len(g.labels),'events',dict(cnt))
    for p in sorted(set(map(str,probs))): print('   PROBLEM',p)
# ---------- C07.CACHE: validity-range reads of page_cache_* need the key test with no invalidating call in between
g=build_cfg(funcs['run_paged_loop_impl'])
INVALIDATE={'mem_get_page','mem_read_word','mem_flip_bit','mem_write_bit','mem_get_word_unaligned','PyObject_CallFunctionObjArgs','PyObject_CallNoArgs','flat_garbage_check'}
# fact: KEY(slotvar) established on T/F edge of a cond comparing page_cache_key_plus1[slot]; or after successful mem_get_page(word_address >> PAGE_BITS) for op_slot
def gen_kill(node,lab):
    a=node['ast']; gen=set(); killall=False
    if a is None: return gen,killall
    s=src_of(a)
    if node['kind']=='cond' and 'page_cache_key_plus1[' in s and '!=' in s and lab=='F':
        slot=s.split('page_cache_key_plus1[')[1].split(']')[0]; gen.add(slot)
    for c in calls(a):
        if callee(c) in INVALIDATE: killall=True
    if node['kind']=='cond' and 'mem_get_page(self, word_address >> 14)' in s.replace('PAGE_BITS','14') and lab=='F':
        gen.add('op_slot')   # post-condition of a successful mem_get_page for the op's page
    return gen,killall
IN=collections.defaultdict(lambda:None); IN[g.entry]=frozenset(); work=[g.entry]
while work:
    n=work.pop(); node=g.nodes[n]; cur=IN[n]
    for (m,lab) in g.succ[n]:
        gen,kill=gen_kill(node,lab)
        out=(frozenset() if kill else cur)|gen
        new=out if IN[m] is None else IN[m]&out
        if new!=IN[m]: IN[m]=new; work.append(m)
print('C07.CACHE uses:')
for node in g.nodes:
    a=node['ast']
    if a is None or node['kind'] not in('stmt','cond'): continue
    s=src_of(a)
    for fld in ('page_cache_valid_start[','page_cache_valid_end[','page_cache_words['):
        idx=0
        while fld in s[idx:]:
            i=s.index(fld,idx); slot=s[i+len(fld):].split(']')[0]; idx=i+1
            ok=IN[node['id']] is not None and slot in IN[node['id']]
            print('  ',line_of(a),fld+slot+']','facts',sorted(IN[node['id']] or []),'OK' if ok else 'STALE')
