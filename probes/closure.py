import sys, json
sys.path.insert(0,'/verif/probes')
import fjfront_probe as fp
files=['/repo/flipjump/stl/'+x+'.fj' for x in json.load(open('/repo/flipjump/stl/conf.json'))['all']]
M={}; top=[]; consts={}
for f in files:
    p=fp.parse_file(f); M.update(p.macros); top+=p.top; consts.update(p.consts)
print('macros',len(M),'consts',sorted(consts))
dang=[]; calls=0
for k,m in M.items():
    for op in m['body']:
        if op[0]=='call': tgt=(op[1],len(op[2]))
        elif op[0]=='rep': tgt=(op[3],len(op[4]))
        else: continue
        calls+=1
        if tgt not in M: dang.append((k,tgt,op[-1]))
print('call sites',calls,'dangling',dang)
# globals: every '<' global has an extern definer or top-level label
ext=set()
for k,m in M.items():
    for e in m['ext']: ext.add((m['ns']+'.' if m['ns'] else '')+e)
toplabels={op[1] for op in top if op[0]=='label'}
missing=[]
for k,m in M.items():
    for g in m['glob']:
        if g not in ext and g not in toplabels: missing.append((k,g))
print('globals used',sum(len(m['glob']) for m in M.values()),'missing definers',missing[:10])
# lifted wrappers: body == single rep(n,i) call with args p+i*dw
def lin(e):
    return e
lifted=0
for k,m in M.items():
    b=[op for op in m['body'] if op[0]!='label']
    if len(b)==1 and b[0][0]=='rep': lifted+=1
print('single-rep macros',lifted)
# doc extents: count doc lines with [:E]
import re
cnt=0
for f in files:
    for line in open(f):
        if line.strip().startswith('//') and re.search(r'\w+\[:[^\]]+\]',line): cnt+=1
print('doc lines with extents',cnt)
