import json, subprocess, sysconfig, collections
SRC='/repo/flipjump/interpreter/_fjcore.c'
raw=subprocess.run(['clang','-fsyntax-only','-I'+sysconfig.get_paths()['include'],'-Xclang','-ast-dump=json',SRC],capture_output=True,text=True,check=True).stdout
tu=json.loads(raw); text=open(SRC).read()
def walk(n):
    yield n
    for c in n.get('inner',[]): yield from walk(c)
def src_of(n):
    r=n.get('range',{}); b=r.get('begin',{}); e=r.get('end',{})
    bo=b.get('offset', b.get('expansionLoc',{}).get('offset')); eo=e.get('offset', e.get('expansionLoc',{}).get('offset')); tl=e.get('tokLen', e.get('expansionLoc',{}).get('tokLen',1))
    return ' '.join(text[bo:eo+tl].split()) if bo is not None and eo is not None else '?'
mainfuncs=[n for n in tu['inner'] if n.get('kind')=='FunctionDecl' and any(c.get('kind')=='CompoundStmt' for c in n.get('inner',[])) and n['name'] in text and not n['name'].startswith(('Py','_Py','__'))]
tot=collections.Counter(); bases=collections.Counter(); per=collections.Counter()
for f in mainfuncs:
    for n in walk(f):
        k=n.get('kind')
        if k=='ArraySubscriptExpr':
            tot['subscript']+=1; per[f['name']]+=1
            bases[src_of(n['inner'][0]).replace('self->','').replace('m->','')]+=1
        elif k=='UnaryOperator' and n.get('opcode')=='*': tot['deref']+=1
        elif k=='CallExpr':
            c=src_of(n['inner'][0])
            if c in('memcpy','memset','malloc','calloc','realloc','free','qsort'): tot[c]+=1
            if c.startswith(('Py','_Py')): tot['pyapi']+=1
        elif k=='BinaryOperator' and n.get('opcode') in('<<','>>'): tot['shift']+=1
print(len(mainfuncs),'functions'); print(dict(tot)); print(bases.most_common(30)); print(per.most_common())
