import ast, sys, collections
from pathlib import Path
mods = ['assembler/assembler.py','assembler/preprocessor.py','assembler/fj_parser.py','assembler/inner_classes/expr.py','assembler/inner_classes/ops.py','fjm/fjm_writer.py','fjm/fjm_reader.py','utils/functions.py']
root=Path('/repo/flipjump')
tot=collections.Counter()
for m in mods:
    src=(root/m).read_text(); tree=ast.parse(src)
    parents={}
    for n in ast.walk(tree):
        for c in ast.iter_child_nodes(n): parents[c]=n
    def func(n):
        while n in parents:
            n=parents[n]
            if isinstance(n,(ast.FunctionDef,ast.AsyncFunctionDef)): return n.name
        return '<module>'
    for n in ast.walk(tree):
        kind=None
        if isinstance(n,ast.Subscript) and isinstance(n.ctx,ast.Load):
            # skip annotations
            p=parents.get(n)
            anc=n; ann=False
            while anc in parents:
                pp=parents[anc]
                if isinstance(pp,(ast.AnnAssign,)) and pp.annotation is anc: ann=True
                if isinstance(pp,ast.arg): ann=True
                if isinstance(pp,ast.FunctionDef) and pp.returns is anc: ann=True
                anc=pp
            if ann: continue
            if isinstance(n.slice,ast.Slice): continue
            kind='subscript'
        elif isinstance(n,ast.BinOp) and isinstance(n.op,(ast.Div,ast.FloorDiv,ast.Mod,ast.LShift,ast.RShift,ast.Pow)):
            kind='arith:'+type(n.op).__name__
        elif isinstance(n,ast.Call):
            f=ast.unparse(n.func)
            if f in ('int','pack','unpack','open','lzma.compress','lzma.decompress','FJMVersion','json.loads','json.dumps') or f.endswith(('.pop','.popleft','.read','.decode','.encode','.open','.index','.remove','exact_eval','.to_bytes')):
                kind='call:'+f
        if kind:
            tot[kind.split(':')[0]]+=1
            print(f'{m}:{n.lineno}:{func(n)}: {kind}: {ast.unparse(n)[:90]}')
print(tot, file=sys.stderr)
