"""throwaway probe: independent .fj lexer + parser (Pratt) - does it parse the whole stl?"""
import re, sys, json
from pathlib import Path

TOK = re.compile(r'''
  (?P<cont>\\[ \t]*\n) | (?P<comment>//[^\n]*) | (?P<ws>[ \t]+) | (?P<nl>[\r\n]) |
  (?P<dotid>(?:[a-zA-Z_][a-zA-Z_0-9]*|\.*)?(?:\.[a-zA-Z_][a-zA-Z_0-9]*)+) |
  (?P<id>[a-zA-Z_][a-zA-Z_0-9]*) |
  (?P<num>0[bB][01]+|0[xX][0-9a-fA-F]+|'(?:[\x20-\x5B\x5D-\x7E]|\\[0abefnrtv\\'"?]|\\[xX][0-9a-fA-F]{2})'|[0-9]+) |
  (?P<str>"(?:[\x20-\x5B\x5D-\x7E]|\\[0abefnrtv\\'"?]|\\[xX][0-9a-fA-F]{2})*") |
  (?P<op><=|>=|==|!=|<<|>>|\*\*|&&|\|\||[=+\-*/%()$^|&~?:<>#{}@,;])
''', re.X)
ESC={'0':0,'a':7,'b':8,'e':0x1b,'f':0xc,'n':0xa,'r':0xd,'t':9,'v':0xb,'\\':0x5c,"'":0x27,'"':0x22,'?':0x3f}
KW={'def','rep','ns','wflip','pad','segment','reserve'}
def charval(s):
    if s[0]!='\\': return ord(s[0]),1
    if s[1] in ESC: return ESC[s[1]],2
    return int(s[2:4],16),4
def lex(text):
    toks=[];line=1;pos=0;comments={}
    while pos<len(text):
        m=TOK.match(text,pos)
        if not m: raise SyntaxError(f'lex error line {line}: {text[pos:pos+20]!r}')
        k=m.lastgroup; v=m.group(k); pos=m.end()
        if k=='cont': line+=1; continue
        if k=='comment': comments[line]=v; continue
        if k=='ws': continue
        if k=='nl': toks.append(('NL','\n',line)); line+=1; continue
        if k=='id' and v in KW: toks.append((v.upper(),v,line)); continue
        if k=='num':
            if v[0]=="'": val=charval(v[1:-1])[0]
            elif v[:2].lower()=='0x': val=int(v,16)
            elif v[:2].lower()=='0b': val=int(v,2)
            else: val=int(v)
            toks.append(('NUM',val,line)); continue
        if k=='str':
            s=v[1:-1];i=0;val=0;n=0
            while i<len(s):
                c,l=charval(s[i:]); val|=c<<(8*n); n+=1; i+=l
            toks.append(('NUM',val,line)); continue
        toks.append(({'id':'ID','dotid':'DOTID','op':v}[k],v,line))
    toks.append(('NL','\n',line)); toks.append(('EOF','',line))
    return toks,comments
# precedence: (level, assoc)
BIN={'?':(1,'R'),'||':(2,'L'),'&&':(3,'L'),'|':(4,'L'),'^':(5,'L'),'<':(6,'N'),'>':(6,'N'),'<=':(6,'N'),'>=':(6,'N'),
     '==':(7,'L'),'!=':(7,'L'),'&':(8,'L'),'<<':(9,'L'),'>>':(9,'L'),'+':(10,'L'),'-':(10,'L'),'*':(11,'L'),'/':(11,'L'),'%':(11,'L'),'**':(13,'R')}
UNARY=12
class P:
    def __init__(s,toks,comments,fname): s.t=toks;s.i=0;s.ns=[];s.macros={};s.top=[];s.comments=comments;s.f=fname;s.consts={}
    def peek(s,k=0): return s.t[s.i+k]
    def eat(s,kind=None):
        tok=s.t[s.i]
        if kind and tok[0]!=kind: raise SyntaxError(f'{s.f}:{tok[2]}: expected {kind} got {tok}')
        s.i+=1; return tok
    def resolve(s,name):
        nd=len(name)-len(name.lstrip('.'))
        if nd==0: return name
        base=s.ns[:len(s.ns)-(nd-1)]
        return '.'.join(base+[name.lstrip('.')])
    def expr(s,minp=0):
        lhs=s.atom()
        while True:
            k=s.peek()[0]
            if k not in BIN: return lhs
            lv,assoc=BIN[k]
            if lv<minp: return lhs
            s.eat()
            if k=='?':
                mid=s.expr(0)  # yacc: inner of ?: parsed until ':'
                s.eat(':'); rhs=s.expr(lv)  # right assoc
                lhs=('?:',lhs,mid,rhs); continue
            rhs=s.expr(lv+1 if assoc in 'LN' else lv)
            lhs=(k,lhs,rhs)
    def atom(s):
        k,v,l=s.peek()
        if k=='NUM': s.eat(); return v
        if k in('ID','DOTID'): s.eat(); return ('id',s.resolve(v) if k=='DOTID' else v)
        if k=='$': s.eat(); return ('id','$')
        if k=='(':
            s.eat(); e=s.expr(0); s.eat(')'); return e
        if k=='-': s.eat(); return ('neg',s.expr(UNARY))
        if k=='~': s.eat(); return ('~',s.expr(UNARY))
        if k=='#': s.eat(); return ('#',s.expr(UNARY))
        raise SyntaxError(f'{s.f}:{l}: bad atom {k} {v!r}')
    def exprs(s):
        r=[s.expr()]
        while s.peek()[0]==',': s.eat(); r.append(s.expr())
        return r
    def starts_expr(s):
        return s.peek()[0] in ('NUM','ID','DOTID','$','(','-','~','#')
    def statement(s):
        k,v,l=s.peek()
        if k=='ID' and s.peek(1)[0]==':':   # label
            s.eat();s.eat(); return [('label','.'.join(s.ns+[v]),l)]+s.statement()
        if k in('NL','}','EOF'): return []
        if k=='ID' and s.peek(1)[0]=='=':
            s.eat();s.eat(); e=s.expr(); s.consts['.'.join(s.ns+[v])]=e; return []
        if k=='WFLIP':
            s.eat(); a=s.exprs(); return [('wflip',a,l)]
        if k in('PAD','SEGMENT','RESERVE'):
            s.eat(); return [(v,s.expr(),l)]
        if k=='REP':
            s.eat(); s.eat('('); n=s.expr(); s.eat(','); it=s.eat('ID')[1]; s.eat(')')
            name=s.eat()[1]; name=s.resolve(name)
            args=s.exprs() if s.starts_expr() else []
            return [('rep',n,it,name,args,l)]
        if k==';':
            s.eat(); j=s.expr() if s.starts_expr() else None; return [('fj',0,j,l)]
        # macro call or fj starting with expr: yacc resolves "id" followed by expr-start as macro call,
        # "id" followed by binary operator/';' as expression.
        if k in('ID','DOTID'):
            nk=s.peek(1)[0]
            if nk in('NL','}','EOF'):
                s.eat(); return [('call',s.resolve(v),[],l)]
            if nk in BIN or nk==';' :
                # "id - x": LEADING_ID -> binary; falls to expr
                pass
            else:
                s.eat(); args=s.exprs(); return [('call',s.resolve(v),args,l)]
        f=s.expr(); s.eat(';'); j=s.expr() if s.starts_expr() else None
        return [('fj',f,j,l)]
    def block(s,top):
        ops=[]
        while True:
            k,v,l=s.peek()
            if k=='EOF' or k=='}': return ops
            if k=='NL': s.eat(); continue
            if k=='NS' :
                s.eat(); name=s.eat('ID')[1]; s.eat('{'); s.ns.append(name); ops+=s.block(top); s.eat('}'); s.ns.pop(); continue
            if k=='DEF':
                s.eat(); name=s.eat('ID')[1]; params=[];local=[];glob=[];ext=[]
                def ids(kind):
                    r=[]
                    while s.peek()[0] in ('ID','DOTID'):
                        t=s.eat(); r.append(s.resolve(t[1]) if t[0]=='DOTID' else t[1])
                        if s.peek()[0]==',': s.eat()
                        else: break
                    return r
                params=ids('p')
                if s.peek()[0]=='@': s.eat(); local=ids('l')
                if s.peek()[0]=='<': s.eat(); glob=ids('g')
                if s.peek()[0]=='>': s.eat(); ext=ids('e')
                s.eat('{'); 
                body=[]
                while s.peek()[0]!='}':
                    if s.peek()[0]=='NL': s.eat(); continue
                    body+=s.statement()
                s.eat('}')
                full='.'.join(s.ns+[name])
                s.macros[(full,len(params))]=dict(params=params,local=local,glob=glob,ext=ext,body=body,ns='.'.join(s.ns),file=s.f,line=l)
                continue
            ops+=s.statement()
def parse_file(path):
    toks,comments=lex(Path(path).read_text())
    p=P(toks,comments,str(path)); p.top=p.block(True)
    if p.peek()[0]!='EOF': raise SyntaxError(f'{path}: trailing {p.peek()}')
    return p
if __name__=='__main__':
    tot=0;nm=0
    allm={}
    for f in sys.argv[1:]:
        try:
            p=parse_file(f); tot+=1; nm+=len(p.macros); allm.update(p.macros)
        except SyntaxError as e:
            print('FAIL',e)
    print('files',tot,'macros',nm)
    json.dump(sorted([k[0],k[1]] for k in allm), open('/verif/probes/mine.json','w'))
